#!/bin/bash
# usage: tools/try_in_copy.sh <patch> <Cxx> [tier]
# Applies the patch to a scratch COPY of /repo's working tree (outside /repo and /verif), runs the check of Cxx against the
# copy (VERIF_REPO), evidence/replays redirected to the scratch dir, and removes the copy.  /repo itself is untouched,
# so several of these can run while other work goes on.
set -u
P=$(realpath "$1"); PROP=$2; TIER=${3:-quick}
D=$(mktemp -d /tmp/verif_mut_XXXXXX)
rsync -a --exclude .git --exclude __pycache__ /repo/ $D/repo/
( cd $D/repo && patch -p1 -s < "$P" ) || { echo "patch does not apply"; rm -rf $D; exit 2; }
mkdir -p $D/ev $D/rp
cd /verif && VERIF_REPO=$D/repo VERIF_EVID=$D/ev VERIF_REPLAYS=$D/rp ./check "$PROP" --tier "$TIER" 2>&1 | grep -v "WARNING conda" | grep -E "VIOLATION|KNOWN-FINDING|MACHINERY|exit=|first:" | cut -c1-${WIDTH:-300}
rm -rf $D
