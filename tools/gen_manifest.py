#!/venv/bin/python
"""Regenerates /verif/MANIFEST.json from the table below (kept valid at all times)."""
import json, os
HERE = os.path.dirname(os.path.dirname(os.path.abspath(__file__)))
TECH = "TLA+ spec model-checked with TLC; spec->code behaviour replay + code->spec trace validation"
CHECKS = {
 "C15": dict(
    text="TLC exhaustively model-checks Isolation (plus Repeatable/NoAliasing) on the contract configuration of spec/Lifecycle.tla "
         "(2 objects x 2 statements x 2 runs, 3 objects x 1-2 runs) and must still refute it on the two shipped-defect configurations "
         "(Binding=global, Registry=shared). Every TLC-enumerated interleaving (all 924 statement-granularity interleavings of two "
         "objects per programme variant, sampled ones for three objects, call-granularity histories) is replayed with one real thread "
         "per DDLParser object through guarded yield points and each run() is compared with the object's solo result; the library's "
         "recorded events from those replays and from free-running pre-empted threads are validated by TLC against the contract "
         "(spec/TraceLifecycle.tla).",
    note="Schedules are explored at statement granularity (yield points), not bytecode granularity; solo oracle computed in a "
         "throw-away process; TLC, PLY, CPython trusted.",
    design="DESIGN.md 3.1, 4 (C15)", technique=TECH + " (Lifecycle.tla, TraceLifecycle.tla)"),
 "C14": dict(
    text="TLC model-checks Repeatable / NoAliasing / AppendOnly of spec/Lifecycle.tla over every call history (construct, run(args)*) "
         "of 1-3 objects with every subset of per-run accumulators left dirty, and must refute them on the configurations in which "
         "parse_data does not re-initialise an accumulator. All 64 three-call histories over four run() argument sets are replayed "
         "on the real library over the regression corpus (harvested from the working tree's tests) and 12 state-leaving scripts: "
         "each run must equal the fresh-object run (computed in another process), results already returned must not change, "
         "arguments and the working directory must be untouched; the same inputs are parsed in fresh interpreters under several "
         "PYTHONHASHSEEDs (json_dump strings compared); two-object histories are trace-validated against TraceLifecycle.tla.",
    note="Inputs are the corpus plus hand-listed state-leaving scripts, not all DDL; fresh-object oracle from a throw-away process; "
         "TLC, PLY, CPython trusted.",
    design="DESIGN.md 3.1, 4 (C14)", technique=TECH + " (Lifecycle.tla, TraceLifecycle.tla)"),
 "C20": dict(
    text="TLC model-checks TablesDeclared of spec/ParseTables.tla (a transcription of ply.yacc.yacc's read-or-regenerate logic "
         "with the interpreter's module cache) over every sequence of <=3-4 cache faults {delete, stale signature, older table "
         "version}, process restarts and parser constructions, and must refute it for the optimize-mode and cannot-regenerate "
         "variants. Exported behaviours are replayed on a scratch copy of the working tree's package: faults are applied to its "
         "parsetab.py, parsers are constructed in real fresh interpreters, and each must reproduce the valid-cache results on "
         "corpus inputs. The Build step also compares a signature-matching table file with a fresh in-memory generation "
         "(actions, gotos, productions).",
    note="PLY's generation algorithm is trusted (cached vs fresh output compared); stale cache is a crafted file (older signature, "
         "tables lacking ALTER/INDEX/SEQUENCE actions); quick tier replays a stratified sample of behaviours.",
    design="DESIGN.md 3.1, 4 (C20)", technique=TECH + " (ParseTables.tla)"),
}
NOT_YET = {}
def main():
    props = [json.loads(l) for l in open(os.path.join(HERE, "properties.jsonl"))]
    checks = []
    na = []
    for p in props:
        pid = p["id"]
        if pid in CHECKS:
            c = CHECKS[pid]
            checks.append({
                "property_id": pid,
                "quick_cmd": f"./check {pid} --tier quick",
                "thorough_cmd": f"./check {pid} --tier thorough",
                "evidence_file": f"/verif/evidence/{pid}.json",
                "replay_cmd_template": f"./check {pid} --replay {{path}}",
                "engine": "tlc+replay",
                "level_claimed": {"category": "model_checking", "text": c["text"], "design_ref": c["design"]},
                "level_note": c["note"],
                "technique": c["technique"],
            })
        else:
            na.append({"property_id": pid, "reason": NOT_YET.get(pid, "check not built yet in this session (specification module under construction); not claimed until its check is green on the unchanged tree")})
    m = {
        "version": 1,
        "setup_cmd": "true",
        "hooks": {
            "guard": "SIMPLE_DDL_PARSER_VERIF",
            "enable": "export SIMPLE_DDL_PARSER_VERIF=1 before importing simple_ddl_parser (pure Python, nothing to build); the harness installs _verif.sink / _verif.scheduler",
            "baseline_off_cmd": "cd /repo && env -u SIMPLE_DDL_PARSER_VERIF /venv/bin/python -m pytest -ra -q -p no:cacheprovider --timeout=900 --continue-on-collection-errors",
            "source_commits": ["04a33f1"],
            "add_only": True,
        },
        "engines": [
            {"name": "tlc+replay", "path": "/verif/check", "serves_properties": sorted(CHECKS),
             "kind_free_text": "TLC (tla2tools 1.8) on /verif/spec/*.tla; Python harness /verif/harness replays TLC behaviours into /repo's working tree and feeds recorded traces back to TLC"}
        ],
        "checks": checks,
        "not_applicable": na,
        "notes": "See DESIGN.md. known_findings.json lists repaired (fixed) and recorded (open) genuine defects. seeded/ holds independently written regressions used to test the checks; mutants/ holds the reverts of the fix: commits.",
    }
    with open(os.path.join(HERE, "MANIFEST.json"), "w") as f:
        json.dump(m, f, indent=1)
    print("claimed:", len(checks), "not_applicable:", len(na))
if __name__ == "__main__":
    main()
