#!/venv/bin/python
"""Regenerates /verif/MANIFEST.json from the table below (kept valid at all times)."""
import json, os
HERE = os.path.dirname(os.path.dirname(os.path.abspath(__file__)))
TECH = "TLA+ spec model-checked with TLC; spec->code behaviour replay + code->spec trace validation"
CHECKS = {
 "C15": dict(
    text="TLC exhaustively model-checks Isolation (plus Repeatable/NoAliasing) on the contract configuration of spec/Lifecycle.tla "
         "(2 objects x 2 statements x 2 runs, 3 objects x 1-2 runs) and must still refute it on the two shipped-defect configurations "
         "(Binding=global, Registry=shared). Every TLC-enumerated interleaving (all 924 statement-granularity interleavings of two "
         "objects per programme variant, sampled ones for three objects, call-granularity histories) is replayed with one real thread "
         "per DDLParser object through guarded yield points and each run() is compared with the object's solo result; the library's "
         "recorded events from those replays and from free-running pre-empted threads are validated by TLC against the contract "
         "(spec/TraceLifecycle.tla)."
         ' Every ordered pair of seven objects differing in run() arguments / debug flag in three call orders, and ordered pairs of output modes on a dialect-rich script, each in its own interpreter, must give the solo results.',
    note="Schedules are explored at statement granularity (yield points), not bytecode granularity; solo oracle computed in a "
         "throw-away process; TLC, PLY, CPython trusted.",
    design="DESIGN.md 3.1, 4 (C15)", technique=TECH + " (Lifecycle.tla, TraceLifecycle.tla)"),
 "C14": dict(
    text="TLC model-checks Repeatable / NoAliasing / AppendOnly of spec/Lifecycle.tla over every call history (construct, run(args)*) "
         "of 1-3 objects with every subset of per-run accumulators left dirty, and must refute them on the configurations in which "
         "parse_data does not re-initialise an accumulator. All 64 three-call histories over four run() argument sets are replayed "
         "on the real library over the regression corpus (harvested from the working tree's tests) and 12 state-leaving scripts: "
         "each run must equal the fresh-object run (computed in another process), results already returned must not change, "
         "arguments and the working directory must be untouched; the same inputs are parsed in fresh interpreters under several "
         "PYTHONHASHSEEDs (json_dump strings compared); two-object histories are trace-validated against TraceLifecycle.tla."
         ' spec/System.tla with MaxRuns=2 (run() twice end to end, silent and raising, flat and grouped; invariant Repeat, negative control rerun_accumulates) is model-checked and replayed; generated TableFold statements are included in the hash-seed comparison.',
    note="Inputs are the corpus plus hand-listed state-leaving scripts, not all DDL; fresh-object oracle from a throw-away process; "
         "TLC, PLY, CPython trusted.",
    design="DESIGN.md 3.1, 4 (C14)", technique=TECH + " (Lifecycle.tla, TraceLifecycle.tla)"),
 "C20": dict(
    text="TLC model-checks TablesDeclared of spec/ParseTables.tla (a transcription of ply.yacc.yacc's read-or-regenerate logic "
         "with the interpreter's module cache) over every sequence of <=3-4 cache faults {delete, stale signature, older table "
         "version}, process restarts and parser constructions, and must refute it for the optimize-mode and cannot-regenerate "
         "variants. Exported behaviours are replayed on a scratch copy of the working tree's package: faults are applied to its "
         "parsetab.py, parsers are constructed in real fresh interpreters, and each must reproduce the valid-cache results on "
         "corpus inputs. The Build step also compares a signature-matching table file with a fresh in-memory generation "
         "(actions, gotos, productions)."
         ' The table file as SHIPPED (committed / before first use) with a matching signature must be loaded without complaint, left untouched by a build, and hold the productions (rule, length, handler) of a fresh generation.',
    note="PLY's generation algorithm is trusted (cached vs fresh output compared); stale cache is a crafted file (older signature, "
         "tables lacking ALTER/INDEX/SEQUENCE actions); quick tier replays a stratified sample of behaviours.",
    design="DESIGN.md 3.1, 4 (C20)", technique=TECH + " (ParseTables.tla)"),
 "C04": dict(
    text="TLC model-checks OnlyTarget / HitsTarget / UnknownRaises / OrderKept / EffectOnColumns / Recorded / FlagsOnNamedColumn of "
         "spec/Registry.tla (a transcription of Output.format's table registry and the BaseData alter methods) over every script of "
         "<=2 tables out of a universe with same-named tables in two schemas and <=3-4 statements of 10 ALTER / CREATE INDEX kinds, "
         "each target spelled as declared or differently, and must refute them on three defective mechanisms (registry keyed by name "
         "only, by spelling, re-append loop). Every state of the generation configurations (every script prefix) is rendered to DDL "
         "with seeded identifier spellings (plain, UPPER, double-quoted, [bracketed], backticked) and parsed by the real library; the "
         "projected result (columns, alter sections, index records of every table, or the raised error) must equal the state TLC computed."
         ' Statements are also written over several lines with statement-opener words as column names; the referenced table of ALTER foreign keys is projected for every column; a table created LIKE the altered one stands by as an entity that must stay untouched; the ALTER kinds are replayed in other output modes.',
    note="Bounded scripts (<=4 statements exhaustive); spellings sampled per seed; column matching of ADD UNIQUE / DEFAULT FOR judged "
         "for the declared spelling only; TLC, PLY, CPython trusted.",
    design="DESIGN.md 3.6, 4 (C04)", technique=TECH + " (Registry.tla)"),
 "C13": dict(
    text="TLC model-checks GroupLossless and BucketRuleAgrees of spec/Registry.tla over every sequence of <=4-5 entities of the 8 kinds "
         "with ALTER / CREATE INDEX results interleaved. Every state of the generation configuration is rendered (entity forms and "
         "comments by seed) and parsed flat and grouped by the real library in several output modes (all 15 in the thorough tier): the "
         "grouped result must be exactly the regrouping TLC computed (bucket -> positions in the flat list), entity dicts unchanged, "
         "always-present buckets present, comments gathered."
         " spec/System.tla is model-checked and replayed grouped and flat over every script of <=3 statements (GroupLossless; negative control group_drops_markerless); hand scripts outside the generator's kinds (DROP TABLE, repeated entities, empty input) must regroup losslessly.",
    note="Entity forms per kind from a small pool; <=4 entities per script replayed; TLC, PLY, CPython trusted.",
    design="DESIGN.md 3.6, 4 (C13)", technique=TECH + " (Registry.tla, System.tla)"),
 "C01": dict(
    text="TLC model-checks ColumnsExact / AppendOnly (with PKExact, UniqueFlags, ShapeOK) of spec/TableFold.tla - the p_defcolumn "
         "fold, the table production and BaseData.__post_init__ transcribed, against the declared-columns contract - over every order "
         "of every subset of the core option groups {NULL|NOT NULL, DEFAULT, PRIMARY KEY, UNIQUE, REFERENCES} on a focus column at "
         "position 1..3(4) for every type form, and must refute them on defective folds. Every complete behaviour of the generation "
         "configurations (option orders x type forms x default forms x position) is rendered to CREATE TABLE (alone or between two "
         "other tables) and parsed by the real library: the reported column list must equal the observable TLC computed."
         ' Every other output mode gets a slice of the behaviours; column names are drawn from six pools (plain, keyword-prefixed, case-colliding, keyword-shaped, statement-opener words) and the table may be declared a second time with IF NOT EXISTS.',
    note="Bounded (<=4-5 options, <=4 columns); type/default/reference forms are pool representatives; TLC, PLY, CPython trusted.",
    design="DESIGN.md 3.4, 4 (C01)", technique=TECH + " (TableFold.tla)"),
 "C02": dict(
    text="TLC model-checks PKExact / UniqueFlags / ConstraintsExact / RefsOnce / ChecksOnce of spec/TableFold.tla over every table of "
         "<=3 columns with <=2(3) table-level items of the 8 forms (PRIMARY KEY / UNIQUE / CHECK / FOREIGN KEY, named or not, 1..3 "
         "columns, any position among the columns) combined with inline PRIMARY KEY / UNIQUE / REFERENCES, including the separate "
         "__post_init__ step, and must refute them on three defective folds. Complete behaviours (incl. all referential-action forms) "
         "are rendered and parsed by the real library; keys, non-nullability of key columns, unique flags, named constraints, checks "
         "and references must equal the contract observable. Deviations TLC itself reaches (Dev tags) are KNOWN-FINDINGs when listed."
         ' Every other output mode gets a slice of the behaviours (keys, nullability and flags do not depend on the dialect class).',
    note="Unique flag of the sole column of a NAMED single-column UNIQUE not judged (left open by the property); bounded tables; "
         "TLC, PLY, CPython trusted.",
    design="DESIGN.md 3.4, 4 (C02)", technique=TECH + " (TableFold.tla)"),
 "C17": dict(
    text="TLC model-checks OneKeyPerOption / NoLeak / SeqModeLocal of spec/Entities.tla (p_expression_seq's dict updates and the "
         "lexer's sequence-keyword flag) over every ordered choice of <=4 (thorough 6) of the 6 option groups x both forms, alone and in "
         "3-statement scripts with a table whose columns are named like sequence keywords and further sequences, and must refute "
         "SeqModeLocal when the flag is not reset per statement. Every complete behaviour is rendered (keyword case, quoted names, "
         "values incl. negative, 2^31, 2^63-1, -2^63 by seed) and parsed by the real library; every sequence entity must equal, key for "
         "key and type for type (True is not 1), what TLC computed, and the neighbouring table keeps its keyword-named columns."
         ' Option-word names after a schema dot, terminator / option layouts over several lines, every other output mode, CRLF scripts, and two live parser objects on scripts mixing sequences and tables.',
    note="Values and names are pool representatives; TLC, PLY, CPython trusted.",
    design="DESIGN.md 3.5, 4 (C17)", technique=TECH + " (Entities.tla)"),
 "C18": dict(
    text="TLC model-checks OneEntityExact / NoLeak / SeqModeLocal of spec/Entities.tla over every script of <=3 declarations from a "
         "catalogue of 24 declaration forms (TYPE AS ENUM/OBJECT/TABLE, DOMAIN, SCHEMA [IF NOT EXISTS] [AUTHORIZATION] [COMMENT], "
         "DATABASE, [BIGFILE|SMALLFILE] [TEMPORARY] TABLESPACE, a table using the types) interleaved with sequences. Every complete "
         "behaviour is rendered and parsed by the real library: one entity per declaration, in order, of the declared kind, carrying the "
         "expected schema / name / base type / values / attributes / authorization / comment / kind / temporary; type names verbatim "
         "in the using table. Forms on which the pinned tree deviates are KNOWN-FINDINGs."
         " 39 catalogue forms incl. literals holding ';' and keyword-prefixed names declared and used; every other output mode (bigquery: dataset) and CRLF renderings.",
    note="Declaration forms are a hand-written catalogue (expected fields from the property text); TLC, PLY, CPython trusted.",
    design="DESIGN.md 3.5, 4 (C18)", technique=TECH + " (Entities.tla)"),
 "C11": dict(
    text="TLC model-checks ClauseOrthogonal / ClausesCombine / NoForeignKeys / ClauseMode / Placement of spec/Clauses.tla over every "
         "body x every single clause and every compatible ordered pair (thorough: triple) of a 39-clause catalogue (Hive, MySQL, Oracle, "
         "Redshift, Snowflake, MSSQL, BigQuery, PostgreSQL, Spark, DB2) x {owning mode, default mode}, and must refute them on the "
         "overwrite and swallow variants. Every shown behaviour is rendered and parsed by the real library in the mode TLC chose: the "
         "body must equal the clause-free body, each clause key must hold the catalogue value at the placement (top level / "
         "table_properties) TLC computed, and no other key may appear."
         " The catalogue holds 92 clauses incl. alternative keyword values, special literal values (';', TAB, '|', numbers), repeated list elements and equal values across clauses; the table name is unqualified or schema-qualified.",
    note="Clause texts, values and placements are a catalogue frozen from the pinned tree and reviewed against the property's list; "
         "clauses are combined within one dialect; TLC, PLY, CPython trusted.",
    design="DESIGN.md 3.4, 4 (C11)", technique=TECH + " (Clauses.tla)"),
 "C10": dict(
    text="TLC model-checks ModeFields / Placement / ClauseOrthogonal of spec/Clauses.tla with all 15 output modes admitted (placement of "
         "every clause key in every mode from the declared/shown field tables) and enumerates statements with spec/Registry.tla, "
         "TableFold.tla, Entities.tla. Replay: every shown Clauses behaviour is parsed in the mode TLC chose and every clause key must "
         "sit where TLC placed it (top level / table_properties / hidden); every generated ALTER/INDEX script, table, entity script and "
         "regression-corpus script is parsed in the default and the other modes (x group_by_type x normalize_names): no mode may raise "
         "where the default does not, the entity sequence and each table's common projection (schema<->dataset at every depth, common "
         "column attributes, index without `clustered`) must equal the default mode's, and every non-common top-level table key must "
         "be documented for that mode."
         ' Hand scripts (re-created tables with kind prefixes, comment styles, numeric terminators, db..t names) x modes; a mode may not change the kind of failure of a script that fails in the default mode.',
    note="Documented modes per field = frozen table harness/mode_fields.json (field metadata of the pinned tree); quick tier samples "
         "modes and behaviours, thorough uses all 15 x flags; TLC, PLY, CPython trusted.",
    design="DESIGN.md 3.6, 4 (C10)", technique=TECH + " (Clauses.tla, Registry.tla, TableFold.tla, Entities.tla)"),
 "C12": dict(
    text="The ShapeOK / TypeOK invariants of spec/TableFold.tla, Registry.tla, Entities.tla, Clauses.tla are model-checked with the other "
         "properties' configurations; the behaviours those specifications generate (tables with every option / item form, ALTER / INDEX "
         "scripts, entity scripts, dialect clauses) and the regression corpus are parsed by the real library in the output modes x "
         "normalize_names x group_by_type, and EVERY returned result is validated against the documented shape (entity dicts, table "
         "keys incl. schema/dataset, list/dict types, column keys, boolean unique/nullable, primary key names among the columns, "
         "always-present buckets), must be JSON-serialisable, and run(json_dump=True) must be exactly json.dumps(run())."
         ' Column-less table entries, a default-literal x size-form cross, delimited and compact scripts, every key-clause spelling x direction form, in every mode x flag; under normalize_names key names must be column names exactly.',
    note="Shape validation of replayed results (the specification supplies the inputs and the record shapes); primary-key membership "
         "judged on generated, well-formed tables only; quick tier samples modes/flags; TLC, PLY, CPython trusted.",
    design="DESIGN.md 4 (C12)", technique=TECH + " (TableFold.tla, Registry.tla, Entities.tla, Clauses.tla)"),
 "C19": dict(
    text="TLC model-checks ReturnsApi / DumpNameAndContent / NoDumpWritesNothing / DirModeIsPerFile of spec/EntryPoints.tla over every "
         "history of <=2 (thorough 3) operations {parse_from_file, sdp <file>, sdp <dir>} x dump / --no-dump x target directory "
         "{missing, existing, nested} over 9 file-name forms, and must refute DirModeIsPerFile for the shipped `second dot-part` "
         "extension rule. Every state of the generation configuration is replayed in a scratch directory through the real "
         "parse_from_file (file encodings and parser settings by seed), cli.main() (-t, -o, -v, --no-dump) and, in the thorough "
         "tier, a fresh interpreter: returned / printed results must equal the in-memory API, and the files on disk must be exactly "
         "those of the TLC state, each the JSON of the API result."
         ' File names with spaces / punctuation, same-stem overwrites, splitlines()-only characters, unsupported statements in the content, grouped dumps (the dump holds what the call returned), parser_settings untouched, created directories count as writes.',
    note="Scratch dirs under the system temp dir (removed); quick tier samples two-operation histories; TLC, CPython trusted.",
    design="DESIGN.md 3.8, 4 (C19)", technique=TECH + " (EntryPoints.tla)"),
 "C03": dict(
    text="TLC model-checks SubmittedExact / CleanBoundary / SetsEmitted of spec/Assembler.tla (parser.py's line assembler transcribed "
         "line by line and validated against the real parser's per-statement events: no drift), OrderKept of Registry.tla and "
         "SeqModeLocal of Entities.tla over every sequence of <=3 (4) statements from 18 statement shapes (tables, sequences, ALTER, "
         "views, queries, DML, GRANT, GO, SET, DROP; 1-3 lines each), and must refute them on defective variants. Every complete "
         "behaviour is rendered (with and without a final line break) and parsed by the real library: the result must be the in-order "
         "concatenation of what TLC lists for each statement alone (ALTER merged into its table). Corpus scripts made of ;-terminated "
         "CREATE statements must equal the concatenation of their statements parsed alone (thorough: also reversed)."
         ' The end-to-end composition spec/System.tla (parse stage -> fold stage -> presentation) is model-checked over every script of <=3 statements of 15 kinds and every behaviour replayed (OutcomeOK, InOrder; negative control set_swallows_next).',
    note="Statement shapes are pool entries with distinct names; <=3-4 statements exhaustive; TLC, PLY, CPython trusted.",
    design="DESIGN.md 3.2, 4 (C03), Appendix A", technique=TECH + " (Assembler.tla, Registry.tla, Entities.tla)"),
 "C08": dict(
    text="TLC model-checks NoCommentInCode / SubmittedExact / CleanBoundary / CommentsFromSource of spec/Assembler.tla over every "
         "insertion of <=1 (2) comments of eight styles (whole-line --, #, /* */, 2- and 3-line blocks, trailing --, trailing /* */, "
         "trailing opener; indented or not; text with or without --) at every line position of every script of <=2 statements from 7 "
         "shapes, and must refute them on two defective scanners. Every complete behaviour is rendered (comment texts full of keywords, "
         "commas, parentheses, semicolons) and parsed by the real library: entities must be those of the comment-free statements, every "
         "reported comment item must be part of one source comment, in source order, and contain no code; what the grammar received is "
         "compared with the model's submissions (drift channel). Deviations TLC tags from the source lines are KNOWN-FINDINGs."
         ' Tables written without the terminating `;` (Assembler kind tablens, LeftPending chain) with comments between and after them, comment texts with unbalanced parentheses, comment-shaped lines inside block comments and the file entry point are covered.',
    note="Comment texts are quote-free pool entries; bounded scripts; TLC, PLY, CPython trusted.",
    design="DESIGN.md 3.2, 4 (C08), Appendix A", technique=TECH + " (Assembler.tla)"),
 "C16": dict(
    text="spec/Assembler.tla's `submitted` is exactly what reaches the grammar: TLC enumerates every script of <=3 statements from 17 "
         "shapes (supported statements with unsupported families at every position) and says which scripts let a rejected statement reach "
         "the grammar. Each is parsed by the real library under silent=True and silent=False (x output modes): silent=True never raises and "
         "yields the listed entities; silent=False raises DDLParserError (a SimpleDDLParserException) exactly when TLC says so, and otherwise "
         "returns the identical result. Supported-only behaviours of the TableFold / Registry / Entities / Clauses generators must not raise "
         "under silent=False; unknown output modes must raise SimpleDDLParserException naming the valid modes."
         ' spec/System.tla (which exception wins: a rejected statement anywhere raises before an unknown ALTER target is folded; negative control fold_while_parsing) is model-checked and replayed under both settings; supported DDL (incl. every CREATE <kind> TABLE word) must not raise under silent=True either; recorded StartRun / ParseStmt / Apply / FinishRun event streams of the corpus are validated by TLC against spec/TraceSystem.tla (corrupted traces must be rejected).',
    note="The raising clause is judged for statements that reach the grammar (skip-word lines are skipped in both settings by design); "
         "TLC, PLY, CPython trusted.",
    design="DESIGN.md 4 (C16)", technique=TECH + " (Assembler.tla + generators of TableFold/Registry/Entities/Clauses)"),
 "C06": dict(
    text="TLC model-checks NameIsID (and FreshAtStart, ClauseMode) of spec/Lexer.tla - t_ID and its helpers transcribed branch for branch, "
         "validated token by token against the real lexer with zero drift - over statement templates (CREATE TABLE with qualified name and "
         "column names in first / after-comma positions, constraints, references, ALTER, CREATE INDEX, CREATE SEQUENCE) with one word per "
         "keyword signature class (from the working tree's tokens.py) and every identifier form in every name slot, and must refute it "
         "when the name-position guard is removed. Replay: every behaviour through the real lexer (types and flags); every identifier "
         "form (lower, Mixed, UPPER, double-quoted, backticked, bracketed) in 26 naming positions and all 87 non-excluded grammar keywords as "
         "column names in 3 positions through the API: names verbatim, and normalize_names=True equal to the plain output with exactly one "
         "outer delimiter pair stripped from every identifier."
         " Identifiers containing '#', keyword-prefixed names in every position, keyword-shaped schema / table / constraint names of ALTER statements, compact and line-start column positions, and normalize_names given through parse_from_file(parser_settings=..) are covered.",
    note="One representative identifier per form; naming positions are a statement catalogue; TLC, PLY, CPython trusted.",
    design="DESIGN.md 3.3, 4 (C06), Appendix B", technique=TECH + " (Lexer.tla)"),
 "C09": dict(
    text="TLC model-checks DepthTracked / CommaInAngle / TypeClosed / TypeStartsLT of spec/Lexer.tla on one statement template per spelling "
         "of the recursive type grammar (ARRAY<T>, MAP<K,V>, STRUCT<f:T,...> to depth 3, three comma spacings, both field syntaxes), and "
         "TypeStartsLT must be refuted exactly on the spellings whose first word contains `>` (recorded deviation). Replay: every template "
         "through the real lexer; every spelling and the size / array-suffix / two-word forms at column position 1..3 with following "
         "options through the API: one balanced type string equal to the spelling up to white space, the size where given, options kept, "
         "both neighbours intact."
         ' Sized / unsized bases x suffixes (array brackets, ARRAY, second type word), unit sizes, delimited STRUCT field names, nested-type neighbours around a sized column; non-nested type text is compared word for word.',
    note="Base types STRING / INT; quick tier uses a width-limited type set; TLC, PLY, CPython trusted.",
    design="DESIGN.md 3.3, 4 (C09)", technique=TECH + " (Lexer.tla)"),
 "C05": dict(
    text="TLC model-checks GapIrrelevant / CaseBlind of spec/Scanner.tla (layout mode) - with the property's provisos as guards of the "
         "environment - and enumerates every layout with <=1 (2) non-canonical choices over gap classes {3 spaces, tab, LF, CRLF, empty "
         "line, none} x token boundary and case {lower, mixed} x keyword, from all-upper and all-lower / all-mixed bases, for 14 statement "
         "skeletons of the four families (CREATE TABLE incl. dialect clauses, 8 ALTER kinds, CREATE INDEX, CREATE SEQUENCE). Every layout is "
         "rendered and parsed by the real library: the result must equal the canonical rendering's. Corpus scripts are re-laid-out whole "
         "(LF->CRLF, blank lines, tabs). Layouts TLC tags as deviations (line break directly before a literal) are KNOWN-FINDINGs."
         ' An absolute leg checks that every mixed-case identifier, type name and value of hand scripts is reported in the letter case written, under three keyword-case styles.',
    note="The pre-processor's regular expressions are not transcribed: the specification states the intended scanner and the enumeration "
         "finds the departures; quick tier samples two-choice layouts; TLC, PLY, CPython trusted.",
    design="DESIGN.md 3.7, 4 (C05)", technique=TECH + " (Scanner.tla)"),
 "C07": dict(
    text="TLC model-checks LiteralVerbatim of spec/Scanner.tla (literal mode) and enumerates every string of <=3 (4) character classes out "
         "of 21 (letters, digits, space, comma, parentheses, =, ;, --, #, /*, */, backslash, non-ASCII, tab, newline, double quote, doubled "
         "quote, keyword-shaped words, punctuation). Every class string is concretised with representatives drawn by seed and written in "
         "five literal positions (DEFAULT, COMMENT, CHECK operand, ENUM value, string table option); the real library must report exactly the "
         "characters between and including the quotes. Numeric defaults of 1..20 digits must come back as equal integers. Classes on which "
         "the regex pre-processor departs are deviations TLC tags from the literal alone: KNOWN-FINDINGs when listed."
         ' Twenty-two literal positions (incl. list elements: inline ENUM, CHECK IN, parenthesised DEFAULT, TBLPROPERTIES, Snowflake options; literal-then-RENAME) and a second exhaustive enumeration over a focus alphabet with longer strings.',
    note="Fidelity per character is as good as the class representatives; the pre-processor is not transcribed; TLC, PLY, CPython trusted.",
    design="DESIGN.md 3.7, 4 (C07)", technique=TECH + " (Scanner.tla)"),
}
NOT_YET = {}
# legs added by wave 6 of the seeded regressions (DESIGN.md 0.4), appended to the level text of the property
WAVE6 = {
 "C01": "Column names also drawn from whole-word (sort directions, referential actions, modifiers) and `#` / `$` pools; one-letter literals that are literal prefixes elsewhere ('N', 'E', 'X') among the defaults.",
 "C02": "Key / unique / foreign-key lists over columns CALLED asc, desc, cascade, first ...; references written without a referenced column list (inline, unnamed, named, compound).",
 "C03": "Hand scripts outside the generators (a table declared again with IF NOT EXISTS / after DROP TABLE, one statement with an unpaired quote before statements holding literals) must equal the concatenation of their statements parsed alone.",
 "C04": "Every other output mode gets a slice of the ALTER effects and of the ADD / DROP / RENAME / MODIFY sequences.",
 "C05": "CRLF versus LF is also compared behind an unpaired apostrophe (comment text, escaped quote).",
 "C06": "Keyword-shaped column names as the first word of their line (one column per line); every part of project-qualified three-part paths (tables and references) in every delimiter form.",
 "C07": "Defaults given by ALTER TABLE (MODIFY, ALTER COLUMN, ADD, ADD CONSTRAINT .. DEFAULT .. FOR) are literal positions too, for strings and for numbers (0 included).",
 "C08": "The `--` marker glued to the comment text / padded with several blanks, for trailing and whole-line comments.",
 "C09": "Every third case stands among neighbours that carry DEFAULT / COMMENT options of their own.",
 "C10": "Literal-bearing statements (every literal position x escaped / doubled quotes, separators) are related across modes.",
 "C12": "Every clause of the catalogue once in every mode and flag configuration; after RENAME COLUMN a key name must be a current or former column name.",
 "C13": "A statement-prefix matrix (OR REPLACE / TRANSIENT / TEMPORARY / EXTERNAL .. x IF NOT EXISTS x 7 entity kinds) and scripts whose ALTER / INDEX target is not defined: whenever both calls return, the grouped result is the regrouping of the flat one.",
 "C14": "Process-level side effects: every ordered pair of 12 objects, each history in a fresh interpreter - an object built after another object has run returns what it returns in a fresh process.",
 "C15": "A twin object holding the byte-identical RegexSerDe script of another object (memoised pre-processing / cached lexer state).",
 "C16": "Empty statements (a line holding only `;`) inside supported scripts; CREATE TABLE statements the grammar rejects inside a later item are unsupported input (no partial entity).",
 "C18": "Table types whose columns carry options (inline key => not nullable), type names / schema parts that are reserved words.",
 "C19": "An input path that is a symbolic link to a file of another base name (the dump is named after the path given).",
 "C20": "Every second cache-fault history builds its first parser in strict mode (silent=False).",
}
def main():
    props = [json.loads(l) for l in open(os.path.join(HERE, "properties.jsonl"))]
    checks = []
    na = []
    for p in props:
        pid = p["id"]
        if pid in CHECKS:
            c = CHECKS[pid]
            checks.append({
                "property_id": pid,
                "quick_cmd": f"./check {pid} --tier quick",
                "thorough_cmd": f"./check {pid} --tier thorough",
                "evidence_file": f"/verif/evidence/{pid}.json",
                "replay_cmd_template": f"./check {pid} --replay {{path}}",
                "engine": "tlc+replay",
                "level_claimed": {"category": "model_checking", "text": c["text"] + (" " + WAVE6[pid] if pid in WAVE6 else ""), "design_ref": c["design"]},
                "level_note": c["note"],
                "technique": c["technique"],
            })
        else:
            na.append({"property_id": pid, "reason": NOT_YET.get(pid, "check not built yet in this session (specification module under construction); not claimed until its check is green on the unchanged tree")})
    m = {
        "version": 1,
        "setup_cmd": "true",
        "hooks": {
            "guard": "SIMPLE_DDL_PARSER_VERIF",
            "enable": "export SIMPLE_DDL_PARSER_VERIF=1 before importing simple_ddl_parser (pure Python, nothing to build); the harness installs _verif.sink / _verif.scheduler",
            "baseline_off_cmd": "cd /repo && env -u SIMPLE_DDL_PARSER_VERIF /venv/bin/python -m pytest -ra -q -p no:cacheprovider --timeout=900 --continue-on-collection-errors",
            "source_commits": ["04a33f1", "bf818b6"],
            "add_only": True,
        },
        "engines": [
            {"name": "tlc+replay", "path": "/verif/check", "serves_properties": sorted(CHECKS),
             "kind_free_text": "TLC (tla2tools 1.8) on /verif/spec/*.tla; Python harness /verif/harness replays TLC behaviours into /repo's working tree and feeds recorded traces back to TLC"}
        ],
        "checks": checks,
        "not_applicable": na,
        "notes": "See DESIGN.md. known_findings.json lists repaired (fixed) and recorded (open) genuine defects. seeded/ holds independently written regressions used to test the checks; mutants/ holds the reverts of the fix: commits.",
    }
    with open(os.path.join(HERE, "MANIFEST.json"), "w") as f:
        json.dump(m, f, indent=1)
    print("claimed:", len(checks), "not_applicable:", len(na))
if __name__ == "__main__":
    main()
