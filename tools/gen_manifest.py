#!/venv/bin/python
"""Regenerates /verif/MANIFEST.json from the table below (kept valid at all times)."""
import json, os
HERE = os.path.dirname(os.path.dirname(os.path.abspath(__file__)))
TECH = "TLA+ spec model-checked with TLC; spec->code behaviour replay + code->spec trace validation"
CHECKS = {
 "C15": dict(
    text="TLC exhaustively model-checks Isolation (plus Repeatable/NoAliasing) on the contract configuration of spec/Lifecycle.tla "
         "(2 objects x 2 statements x 2 runs, 3 objects x 1-2 runs) and must still refute it on the two shipped-defect configurations "
         "(Binding=global, Registry=shared). Every TLC-enumerated interleaving (all 924 statement-granularity interleavings of two "
         "objects per programme variant, sampled ones for three objects, call-granularity histories) is replayed with one real thread "
         "per DDLParser object through guarded yield points and each run() is compared with the object's solo result; the library's "
         "recorded events from those replays and from free-running pre-empted threads are validated by TLC against the contract "
         "(spec/TraceLifecycle.tla).",
    note="Schedules are explored at statement granularity (yield points), not bytecode granularity; solo oracle computed in a "
         "throw-away process; TLC, PLY, CPython trusted.",
    design="DESIGN.md 3.1, 4 (C15)", technique=TECH + " (Lifecycle.tla, TraceLifecycle.tla)"),
}
NOT_YET = {}
def main():
    props = [json.loads(l) for l in open(os.path.join(HERE, "properties.jsonl"))]
    checks = []
    na = []
    for p in props:
        pid = p["id"]
        if pid in CHECKS:
            c = CHECKS[pid]
            checks.append({
                "property_id": pid,
                "quick_cmd": f"./check {pid} --tier quick",
                "thorough_cmd": f"./check {pid} --tier thorough",
                "evidence_file": f"/verif/evidence/{pid}.json",
                "replay_cmd_template": f"./check {pid} --replay {{path}}",
                "engine": "tlc+replay",
                "level_claimed": {"category": "model_checking", "text": c["text"], "design_ref": c["design"]},
                "level_note": c["note"],
                "technique": c["technique"],
            })
        else:
            na.append({"property_id": pid, "reason": NOT_YET.get(pid, "check not built yet in this session (specification module under construction); not claimed until its check is green on the unchanged tree")})
    m = {
        "version": 1,
        "setup_cmd": "true",
        "hooks": {
            "guard": "SIMPLE_DDL_PARSER_VERIF",
            "enable": "export SIMPLE_DDL_PARSER_VERIF=1 before importing simple_ddl_parser (pure Python, nothing to build); the harness installs _verif.sink / _verif.scheduler",
            "baseline_off_cmd": "cd /repo && env -u SIMPLE_DDL_PARSER_VERIF /venv/bin/python -m pytest -ra -q -p no:cacheprovider --timeout=900 --continue-on-collection-errors",
            "source_commits": ["04a33f1"],
            "add_only": True,
        },
        "engines": [
            {"name": "tlc+replay", "path": "/verif/check", "serves_properties": sorted(CHECKS),
             "kind_free_text": "TLC (tla2tools 1.8) on /verif/spec/*.tla; Python harness /verif/harness replays TLC behaviours into /repo's working tree and feeds recorded traces back to TLC"}
        ],
        "checks": checks,
        "not_applicable": na,
        "notes": "See DESIGN.md. known_findings.json lists repaired (fixed) and recorded (open) genuine defects. seeded/ holds independently written regressions used to test the checks; mutants/ holds the reverts of the fix: commits.",
    }
    with open(os.path.join(HERE, "MANIFEST.json"), "w") as f:
        json.dump(m, f, indent=1)
    print("claimed:", len(checks), "not_applicable:", len(na))
if __name__ == "__main__":
    main()
