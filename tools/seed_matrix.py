#!/venv/bin/python
"""Runs every seeded regression (and every revert-of-fix mutant) against the check of its property on a scratch copy of /repo and
records the outcome in seeded/<id>/meta.json ("detected_by") and in seeded/MATRIX.md.   usage: tools/seed_matrix.py [Cxx ...] [-j N] [--tier quick] [--only REGEX]"""
import concurrent.futures as cf
import glob
import json
import os
import re
import subprocess
import sys

V = "/verif"
args = [a for a in sys.argv[1:] if re.fullmatch(r"C\d\d", a)]
jobs = int(sys.argv[sys.argv.index("-j") + 1]) if "-j" in sys.argv else 3
tier = sys.argv[sys.argv.index("--tier") + 1] if "--tier" in sys.argv else "quick"
only = re.compile(sys.argv[sys.argv.index("--only") + 1]) if "--only" in sys.argv else None   # e.g. --only '-(M|N)$'
items = []
for d in sorted(glob.glob(V + "/seeded/C*-*")):
    pid = os.path.basename(d).split("-")[0]
    if args and pid not in args:
        continue
    if only and not only.search(os.path.basename(d)):
        continue
    items.append((os.path.basename(d), pid, d + "/patch.diff"))
for f in sorted(glob.glob(V + "/mutants/*.diff")):
    m = re.search(r"_(C\d\d)_", f)
    if m and (not args or m.group(1) in args) and not only:
        items.append((os.path.basename(f), m.group(1), f))


def one(it):
    name, pid, patch = it
    p = subprocess.run([V + "/tools/try_in_copy.sh", patch, pid, tier], stdout=subprocess.PIPE, stderr=subprocess.STDOUT, text=True, env=dict(os.environ, WIDTH="400"))
    out = p.stdout
    res = "VIOLATION" if "VIOLATION property=" + pid in out else ("MACHINERY" if "MACHINERY" in out or "exit=2" in out else ("no-apply" if "does not apply" in out else "missed"))
    first = next((l for l in out.splitlines() if l.strip().startswith("first:")), "")[:300]
    return name, pid, res, first


rows = []
with cf.ThreadPoolExecutor(jobs) as ex:
    for name, pid, res, first in ex.map(one, items):
        print(f"{name:40} {pid} {res}", flush=True)
        rows.append((name, pid, res, first))
        mp = f"{V}/seeded/{name}/meta.json"
        if os.path.exists(mp):
            m = json.load(open(mp))
            m["detected_by"] = {"check": f"./check {pid} --tier {tier}", "result": res, "first_violation": first}
            json.dump(m, open(mp, "w"), indent=1)
old = {}
mpath = V + "/seeded/MATRIX.md"
if os.path.exists(mpath):
    for l in open(mpath):
        c = [x.strip() for x in l.strip().strip("|").split("|")]
        if len(c) >= 3 and re.fullmatch(r"C\d\d", c[1]):
            old[c[0]] = c
for name, pid, res, first in rows:
    old[name] = [name, pid, res, tier]
with open(mpath, "w") as f:
    f.write("# Seeded regressions / revert-of-fix mutants vs. the check of their property\n\n| change | property | result | tier |\n|---|---|---|---|\n")
    for k in sorted(old):
        f.write("| " + " | ".join(old[k][:4]) + " |\n")
