#!/bin/bash
# usage: tools/try_all.sh <Cxx> [tier]  -- runs the check of Cxx against every seeded regression / mutant filed for it (scratch copies)
set -u
PROP=$1; TIER=${2:-quick}
for P in /verif/seeded/$PROP-*/patch.diff /verif/mutants/*_${PROP}_*.diff; do
  [ -f "$P" ] || continue
  echo "== $P"
  /verif/tools/try_in_copy.sh "$P" "$PROP" "$TIER" 2>&1 | head -6
done
