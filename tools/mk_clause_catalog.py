import json
from simple_ddl_parser import DDLParser
BODY = "CREATE TABLE t1 (a int, b varchar(10) NOT NULL)"
CL = [
 ("hql","clustered_by_kw","CLUSTERED BY (a, order) INTO 8 BUCKETS"), ("snowflake","cluster_by_kw","CLUSTER BY (a, order)"), ("hql","partitioned_by_kw","PARTITIONED BY (dt string, order int)"), ("postgres","partition_by_pg_kw","PARTITION BY HASH (a, set)"), ("redshift","distkey_kw","DISTKEY (comment)"),
 ("snowflake","retention0","DATA_RETENTION_TIME_IN_DAYS = 0"), ("snowflake","max_ext0","MAX_DATA_EXTENSION_TIME_IN_DAYS = 0"), ("snowflake","change_tracking_false","CHANGE_TRACKING = FALSE"),
 ("mysql","auto_increment0","AUTO_INCREMENT=0"), ("hql","clustered_by1","CLUSTERED BY (b) INTO 1 BUCKETS"), ("snowflake","retention90","DATA_RETENTION_TIME_IN_DAYS = 90"),
 ("snowflake","with_tag3","WITH TAG (cost_center='sales', pii='none', retention='1y')"), ("postgres","partition_by_pg2","PARTITION BY RANGE (a, b)"), ("postgres","partition_by_hash","PARTITION BY HASH (a)"),
 ("hql","partitioned_by3","PARTITIONED BY (p1 string, p2 int, p3 date)"), ("hql","clustered_by2","CLUSTERED BY (a, b) INTO 16 BUCKETS"), ("hql","tblproperties3","TBLPROPERTIES ('k1'='v1', 'k2'='v2', 'k3'='v3')"),
 ("snowflake","cluster_by2","CLUSTER BY (a, b)"), ("bigquery","options3","OPTIONS (description='d', friendly_name='f', expiration_timestamp='e')"), ("mssql","with2","WITH (DATA_COMPRESSION = PAGE, FILLFACTOR = 80)"),
 ("redshift","distkey_b","DISTKEY (b)"), ("hql","skewed_by3","SKEWED BY (a) ON (1, 2, 3)"), ("bigquery","partition_by_trunc","PARTITION BY DATE_TRUNC(a, MONTH)"),
 ("hql","stored_as","STORED AS PARQUET"), ("hql","location","LOCATION 's3://b/p'"), ("hql","row_format","ROW FORMAT DELIMITED"),
 ("hql","fields_term","FIELDS TERMINATED BY ','"), ("hql","tblproperties","TBLPROPERTIES ('k1'='v1', 'k2'='v2')"),
 ("hql","partitioned_by","PARTITIONED BY (p1 string, p2 int)"), ("hql","clustered_by","CLUSTERED BY (a) INTO 8 BUCKETS"),
 ("hql","row_format_serde","ROW FORMAT SERDE 'org.x.Serde'"), ("hql","collection_items","COLLECTION ITEMS TERMINATED BY '\\002'"),
 ("hql","map_keys","MAP KEYS TERMINATED BY '\\003'"), ("hql","lines_term","LINES TERMINATED BY '\\n'"), ("hql","skewed_by","SKEWED BY (a) ON (1, 2)"),
 ("hql","stored_as_io","STORED AS INPUTFORMAT 'a.b.In' OUTPUTFORMAT 'a.b.Out'"),
 ("mysql","engine","ENGINE=InnoDB"), ("mysql","default_charset","DEFAULT CHARSET=utf8"), ("mysql","auto_increment","AUTO_INCREMENT=5"),
 ("oracle","tablespace","TABLESPACE users"), ("oracle","storage","STORAGE (INITIAL 64K NEXT 1M)"), ("oracle","organization_index","ORGANIZATION INDEX"),
 ("redshift","diststyle","DISTSTYLE KEY"), ("redshift","distkey","DISTKEY (a)"),
 ("snowflake","cluster_by","CLUSTER BY (a)"), ("snowflake","comment","COMMENT = 'tbl c'"), ("snowflake","retention","DATA_RETENTION_TIME_IN_DAYS = 5"),
 ("snowflake","change_tracking","CHANGE_TRACKING = TRUE"), ("snowflake","with_tag","WITH TAG (t1 = 'v')"), ("snowflake","max_ext","MAX_DATA_EXTENSION_TIME_IN_DAYS = 7"),
 ("mssql","on","ON [PRIMARY]"), ("mssql","textimage_on","TEXTIMAGE_ON [PRIMARY]"), ("mssql","with","WITH (DATA_COMPRESSION = PAGE)"),
 ("bigquery","options","OPTIONS (description='d', labels=[('a','b')])"), ("bigquery","partition_by","PARTITION BY DATE(a)"), ("bigquery","cluster_by_bq","CLUSTER BY a"),
 ("postgres","inherits","INHERITS (base1)"), ("postgres","partition_by_pg","PARTITION BY RANGE (a)"),
 ("spark_sql","using","USING parquet"),
 ("ibm_db2","organize_by_column","ORGANIZE BY COLUMN"), ("postgres","inherits_q","INHERITS (s2.base2)"), ("redshift","diststyle_all","DISTSTYLE ALL"), ("redshift","diststyle_even","DISTSTYLE EVEN"),
 ("hql","stored_as_textfile","STORED AS TEXTFILE"), ("mysql","engine_myisam","ENGINE=MyISAM"), ("mysql","charset_latin1","DEFAULT CHARSET=latin1"), ("oracle","tablespace_mixed","TABLESPACE Users_Data"),
 ("hql","location_hdfs","LOCATION 'hdfs://nn:8020/warehouse/t1'"), ("snowflake","cluster_by_b","CLUSTER BY (b)"),
 ("hql","fields_term_semi","FIELDS TERMINATED BY ';'"), ("hql","fields_term_tab","FIELDS TERMINATED BY '\t'"), ("hql","lines_term_semi","LINES TERMINATED BY ';'"),
 ("hql","map_keys_tab","MAP KEYS TERMINATED BY '\t'"), ("hql","collection_items_semi","COLLECTION ITEMS TERMINATED BY ';'"), ("hql","location_semi","LOCATION 's3://b/p;v1'"),
 ("snowflake","comment_semi","COMMENT = 'a; b'"), ("hql","tblproperties_semi","TBLPROPERTIES ('k;1'='v;1')"), ("hql","fields_term_pipe","FIELDS TERMINATED BY '|'"),
 ("hql","lines_term_num","LINES TERMINATED BY 10"), ("hql","fields_term_num","FIELDS TERMINATED BY 124"), ("hql","map_keys_num","MAP KEYS TERMINATED BY 3"),
 ("hql","clustered_sorted_rep","CLUSTERED BY (a) SORTED BY (a ASC, b ASC) INTO 4 BUCKETS"), ("bigquery","cluster_by_bq3","CLUSTER BY a, b, x"), ("hql","skewed_by_rep","SKEWED BY (a) ON (1, 5, 1)"),
 ("hql","partitioned_by_rep","PARTITIONED BY (p1 string, p2 string)"), ("hql","tblproperties_rep","TBLPROPERTIES ('k1'='v', 'k2'='v')"), ("snowflake","with_tag_rep","WITH TAG (t1='x', t2='x')"),
 ("ibm_db2","index_in_same","INDEX IN ts1"), ("snowflake","cluster_by_rep","CLUSTER BY (a, b, a)"),
 ("ibm_db2","in","IN ts1"), ("ibm_db2","index_in","INDEX IN ts2"), ("ibm_db2","organize_by","ORGANIZE BY ROW"),
]
base = {}
out = []
for m, cid, c in CL:
    for mode in (m, "sql"):
        if mode not in base: base[mode] = DDLParser(BODY+";").run(output_mode=mode)[0]
    ent = {"id": cid, "dialect": m, "ddl": c, "own": {}, "sql": {}}
    for mode, slot in ((m,"own"),("sql","sql")):
        t = DDLParser(BODY+" "+c+";").run(output_mode=mode)[0]; b = base[mode]
        for k, v in t.items():
            if k == "table_properties":
                for k2, v2 in v.items():
                    if k2 not in (b.get("table_properties") or {}): ent[slot]["props."+k2] = v2
            elif k not in b or b[k] != v:
                ent[slot]["top."+k] = v
    out.append(ent)
print(json.dumps(out, indent=1))
