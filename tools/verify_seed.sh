#!/bin/bash
# usage: tools/verify_seed.sh Cxx A|B   -- confirms an independently written regression in its scratch worktree and
# files it under /verif/seeded/Cxx-X/ (patch.diff, demo.py, meta.json)
set -u
ID=$1; X=$2; D=/tmp/seed/$ID; WT=$D/wt; OUT=$D/out
[ -f $OUT/$X.diff ] || { echo "$ID-$X: no diff"; exit 2; }
cd $WT || exit 2
git checkout -q -- . ; git clean -fdq
run_demo() { (cd $WT && PYTHONPATH=$WT timeout 300 /venv/bin/python $OUT/demo_$X.py >/dev/null 2>&1); echo $?; }
base=$(run_demo)
git apply $OUT/$X.diff || { echo "$ID-$X: diff does not apply"; exit 2; }
tests=$(PYTHONPATH=$WT /venv/bin/python -m pytest -q -p no:cacheprovider 2>&1 | tail -1)
mut=$(run_demo)
git checkout -q -- . ; git clean -fdq
ok=no
if [ "$base" = "0" ] && [ "$mut" != "0" ] && echo "$tests" | grep -q "^308 passed"; then ok=yes; fi
echo "$ID-$X: demo_clean=$base demo_mutant=$mut tests='$tests' confirmed=$ok"
if [ $ok = yes ]; then
  T=/verif/seeded/$ID-$X; mkdir -p $T
  cp $OUT/$X.diff $T/patch.diff; cp $OUT/demo_$X.py $T/demo.py
  /venv/bin/python - $OUT/meta_$X.json $T/meta.json "$tests" $base $mut <<'P'
import json,sys
m=json.load(open(sys.argv[1]))
m["confirmed_by_me"]={"tests_with_patch":sys.argv[3],"demo_exit_clean":int(sys.argv[4]),"demo_exit_patched":int(sys.argv[5]),
  "how":"tools/verify_seed.sh in the scratch worktree: demo on clean tree, git apply, full pytest, demo, checkout"}
m["detected_by"]=None
json.dump(m,open(sys.argv[2],"w"),indent=1)
P
fi
