#!/bin/bash
# usage: tools/try_mutant.sh <patch> <Cxx> [tier]   -- applies patch to /repo, runs the check, restores /repo
set -u
P=$(realpath "$1"); PROP=$2; TIER=${3:-quick}
cd /repo || exit 2
if ! git diff --quiet; then echo "/repo dirty"; exit 2; fi
git apply "$P" || { echo "patch does not apply"; exit 2; }
cd /verif && ./check "$PROP" --tier "$TIER" 2>&1 | grep -v "WARNING conda" | grep -E "VIOLATION|KNOWN-FINDING|MACHINERY|exit=" | cut -c1-400
cd /repo && git checkout -- . && git status --short | grep -v '^??' | head -3
