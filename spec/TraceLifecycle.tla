--------------------------- MODULE TraceLifecycle ---------------------------
(***************************************************************************)
(* Code -> spec binding for Lifecycle: validates batches of event traces   *)
(* recorded from the real library (hooks in parser.py, guard               *)
(* SIMPLE_DDL_PARSER_VERIF=1) against the CONTRACT configuration of        *)
(* Lifecycle (Binding = "perobject", ResetSet = Accs, Registry = perrun).  *)
(*                                                                         *)
(* The file named by the environment variable TRACE_FILE is a JSON array   *)
(* of traces  [solo |-> [Obj -> Seq(Seq(Int))], ev |-> Seq(event)]  where  *)
(* solo[o][k] is the id of the digest of what statement k of o's script    *)
(* yields when o is the only parser in a process, and an event is          *)
(*   [event, o, digest, ncomments, glexer_mine, gparse_mine, rdigest, exc]. *)
(* `api' fields (digest of the statement result; number of comments        *)
(* reported by the run) are always constrained; `internal' fields (owner   *)
(* of the PLY globals, accumulator at run start) only when Strict.         *)
(* One TLC run validates every trace of the batch: tid is chosen in Init.  *)
(***************************************************************************)
EXTENDS Lifecycle, IOUtils, TLCExt

CONSTANT Strict

Traces == JsonDeserialize(IOEnv.TRACE_FILE)

VARIABLES tid, l, fail

tvars == <<vars, tid, l, fail>>

Tr == Traces[tid].ev
SoloOf(o, k) == Traces[tid].solo[o][k]

TInit == Init /\ tid \in 1..Len(Traces) /\ l = 1 /\ fail = 0

IsEvent(e) == l <= Len(Tr) /\ Tr[l].event = e /\ fail = 0

TBuildLexer == /\ IsEvent("BuildLexer") /\ BuildLexer(Tr[l].o)
TBuildParser == /\ IsEvent("BuildParser") /\ BuildParser(Tr[l].o)

TStartRun == /\ IsEvent("StartRun")
             /\ \E a \in Args : StartRun(Tr[l].o, a)
             /\ Strict => /\ Tr[l].ncomments = listLen'[Tr[l].o][gen'[Tr[l].o]]   \* internal
                          /\ Tr[l].c_comments = ("comments" \in carried'[Tr[l].o])
                          /\ Tr[l].c_block = ("block_comments" \in carried'[Tr[l].o])
                          /\ Tr[l].c_stmt = ("statement" \in carried'[Tr[l].o])

TParseStmt == /\ IsEvent("ParseStmt")
              /\ LET o == Tr[l].o IN
                 /\ ParseStmt(o)
                 /\ Tr[l].digest = SoloOf(o, sidx[o] + 1)                  \* api: result of the statement
                 /\ Strict => /\ Tr[l].glexer_mine = (gLexer = o)          \* internal
                              /\ Tr[l].gparse_mine = (gParse = o)

TFinishRun == /\ IsEvent("FinishRun")
              /\ LET o == Tr[l].o IN
                 /\ FinishRun(o)
                 /\ res'[o][Len(res'[o])].raised = "no"
                 /\ Tr[l].ncomments = listLen'[o][res'[o][Len(res'[o])].list]    \* api: comments reported by this run
                 /\ Tr[l].rdigest = Traces[tid].solorun[o]                   \* api: the whole result of run()

\* harness event: run() returned normally (the library's FinishRun event precedes it)
TRunEndOk == /\ IsEvent("RunEnd") /\ Tr[l].exc = "no"
             /\ LET o == Tr[l].o IN
                /\ pc[o] = "built" /\ Len(res[o]) > 0 /\ res[o][Len(res[o])].raised = "no"
                /\ Tr[l].rdigest = Traces[tid].solorun[o]
             /\ UNCHANGED vars

\* harness event: run() raised.  The library logs nothing on that path, so this event IS the step that
\* raises: the statement rejected under silent=False, or the registry lookup of a foreign ALTER.
TRunEndExc == /\ IsEvent("RunEnd") /\ Tr[l].exc # "no"
              /\ LET o == Tr[l].o IN
                 /\ (ParseStmt(o) \/ FinishRun(o))
                 /\ Len(res'[o]) = Len(res[o]) + 1
                 /\ res'[o][Len(res'[o])].raised = Tr[l].exc             \* api: exception class

TStep == /\ (TBuildLexer \/ TBuildParser \/ TStartRun \/ TParseStmt \/ TFinishRun \/ TRunEndOk \/ TRunEndExc)
         /\ l' = l + 1 /\ UNCHANGED <<tid, fail>>

TFail == /\ l <= Len(Tr) /\ fail = 0 /\ ~ENABLED TStep
         /\ fail' = l /\ UNCHANGED <<vars, tid, l>>

TNext == TStep \/ TFail

TSpec == TInit /\ [][TNext]_tvars

\* every state of every validated execution satisfies the contract invariants
TInv == Isolation /\ Repeatable

Report == /\ (fail = 0 /\ l = Len(Tr) + 1) => PrintT(<<"ACC", ToJson([tid |-> tid])>>)
          /\ (fail # 0) => PrintT(<<"REJ", ToJson([tid |-> tid, line |-> fail, pc |-> pc, sidx |-> sidx,
                                                  gLexer |-> gLexer, gParse |-> gParse])>>)
=============================================================================
