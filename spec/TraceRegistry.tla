---------------------------- MODULE TraceRegistry ----------------------------
(***************************************************************************)
(* Code -> spec binding for layer O: the guarded `Apply` events of          *)
(* Output.format (one per statement result: statement kind, normalised      *)
(* target id, number of entities, registered table ids, column names of     *)
(* every registered table) recorded from real executions are validated      *)
(* against the step properties of spec/Registry.tla, stated over what the   *)
(* events expose:                                                           *)
(*   OrderKept   entities are only appended, one per creating statement     *)
(*   OnlyTarget  an ALTER / CREATE INDEX changes the columns of the table   *)
(*               it names and of no other; a CREATE changes no other table  *)
(*   (the registry only grows; an index never changes a column list)        *)
(* Many traces per TLC run (tid), one state per event.                      *)
(***************************************************************************)
EXTENDS Naturals, Sequences, FiniteSets, TLC, Json, IOUtils

CONSTANTS Strict
Traces == JsonDeserialize(IOEnv.TRACE_FILE)

VARIABLES tid, k, n, tabs, cols, ok
vars == <<tid, k, n, tabs, cols, ok>>
NoCols == [x \in {} |-> <<>>]
TInit == tid = 1 /\ k = 1 /\ n = 0 /\ tabs = {} /\ cols = NoCols /\ ok = TRUE
Cur == Traces[tid].ev[k]
TabSet(e) == {e.tables[i] : i \in DOMAIN e.tables}
Same(e, t) == t \in DOMAIN cols /\ e.cols[t] = cols[t]

Matches(e) ==
    LET new == TabSet(e) IN
    /\ tabs \subseteq new                                         \* the registry only grows
    /\ DOMAIN e.cols = new
    /\ CASE e.kind = "table" -> /\ e.n = n + 1 /\ e.target \in new
                                /\ new \subseteq tabs \cup {e.target}
                                /\ \A t \in tabs \ {e.target} : Same(e, t)
         [] e.kind = "other" -> /\ e.n = n + 1 /\ new = tabs /\ \A t \in tabs : Same(e, t)
         [] e.kind = "alter" -> /\ e.n = n /\ new = tabs /\ e.target \in tabs
                                /\ \A t \in tabs \ {e.target} : Same(e, t)
         [] e.kind = "index" -> /\ e.n = n /\ new = tabs /\ e.target \in tabs /\ \A t \in tabs : Same(e, t)

NextTrace == tid' = tid + 1 /\ k' = 1 /\ n' = 0 /\ tabs' = {} /\ cols' = NoCols /\ ok' = TRUE
TNext ==
    /\ tid <= Len(Traces)
    /\ IF ~ok \/ k > Len(Traces[tid].ev)
       THEN NextTrace
       ELSE LET e == Cur IN
            /\ ok' = Matches(e)
            /\ n' = e.n /\ tabs' = TabSet(e) /\ cols' = e.cols
            /\ k' = k + 1 /\ tid' = tid

Report ==
    /\ (tid <= Len(Traces) /\ ~ok) => PrintT(<<"REJ", ToJson([tid |-> tid, line |-> k - 1])>>)
    /\ (tid <= Len(Traces) /\ ok /\ k > Len(Traces[tid].ev)) => PrintT(<<"ACC", ToJson([tid |-> tid])>>)
TInv == TRUE
=============================================================================
