------------------------------- MODULE Lexer -------------------------------
(***************************************************************************)
(* Layer X of DESIGN.md: the lexer's mode machine                           *)
(* (simple_ddl_parser/ddl_parser.py t_ID and its helpers, tokens.py tables, *)
(* parser.py set_default_flags_in_lexer), transcribed branch for branch.    *)
(*                                                                          *)
(*   Reset        set_default_flags_in_lexer (before every statement)        *)
(*   Tok(w)       t_ID on one word / symbol (or t_DQ_STRING, t_STRING_BASE,  *)
(*                t_DOT for the dedicated rules)                             *)
(*                                                                          *)
(* A word is a record of everything the code asks of it: its membership in   *)
(* the seven keyword tables of tokens.py, the number of `<` and `>` in it,   *)
(* whether it starts with ARRAY, is a parenthesis, a comma, a delimited name *)
(* or a string.  The table memberships are computed from the WORKING TREE's  *)
(* tokens.py at check time, so a keyword moved between tables changes a      *)
(* constant of the model and is then judged by the invariants.               *)
(*                                                                          *)
(* The environment emits statements from TEMPLATES: sequences of slots, each *)
(* slot a grammatical position (keyword, name, type, option, punctuation)    *)
(* with the set of words that may stand there, so the position of every      *)
(* token is known to the invariants.                                         *)
(* Serves C06 (NameIsID), C09 (DepthTracked, CommaInAngle, TypeClosed,       *)
(* TypeStartsLT), C03/C17 (FreshAtStart), C11 (ClauseMode).                  *)
(***************************************************************************)
EXTENDS Naturals, Sequences, FiniteSets, TLC, Json

CONSTANTS Templates,    \* set of templates; a template is a Seq of slots [kind, words]
          FirstLiners,  \* upper-case words of tokens.first_liners (for is_token_column_name)
          AlterTokens,  \* upper-case words of tokens.alter_tokens
          ClauseOpeners,\* words C06 excludes from "accepted as a name"
          ResetFlags,   \* set of flags Reset clears (contract: all of them)
          NameGuard,    \* BOOLEAN: the name-position guards (is_token_column_name / is_creation_name) are in place
          WithHist

AllFlags == {"is_table", "sequence", "last_token", "columns_def", "after_columns", "check", "last_par", "lp_open", "is_alter", "is_like", "lt_open"}

VARIABLES tpl, idx,          \* the template being emitted and the next slot
          is_table, sequence, last_token, columns_def, after_columns, check, last_par, lp_open, is_alter, is_like, lt_open,
          depth,             \* ghost: true `<` nesting depth of the type being written
          out,               \* Seq([kind, v, type]) the tokens typed so far in this statement
          bad,               \* set of violated per-token expectations (ghost, for the invariants)
          hist
flags == <<is_table, sequence, last_token, columns_def, after_columns, check, last_par, lp_open, is_alter, is_like, lt_open>>
vars == <<tpl, idx, flags, depth, out, bad, hist>>

NoTpl == <<>>
F == "False"        \* Python False as stored in the flag attributes (last_token / last_par hold False or a token type)

Init == /\ tpl = NoTpl /\ idx = 1
        /\ is_table = FALSE /\ sequence = FALSE /\ last_token = F /\ columns_def = FALSE /\ after_columns = FALSE /\ check = FALSE
        /\ last_par = F /\ lp_open = 0 /\ is_alter = FALSE /\ is_like = FALSE /\ lt_open = 0
        /\ depth = 0 /\ out = <<>> /\ bad = {} /\ hist = <<>>

(* ---- helpers, one per Python helper ------------------------------------------------------------------------- *)
IsPunct(w) == w.v \in {"(", ")", ","}
Get(tbl, dflt) == IF tbl # "" THEN tbl ELSE dflt          \* dict.get(value.upper(), default)

IsTokenColumnName(w) ==
    /\ NameGuard /\ ~IsPunct(w) /\ is_table /\ lp_open > 0 /\ ~is_like
    /\ last_token \in {"COMMA", "LP"}
    /\ w.up \notin FirstLiners

IsCreationName(w) ==
    /\ ~IsPunct(w) /\ w.up # "IF"
    /\ \/ last_token \in {"SCHEMA", "TABLE", "DATABASE", "TYPE", "DOMAIN", "TABLESPACE", "CONSTRAINT", "EXISTS"}
       \/ (last_token = "INDEX" /\ ~is_table)
    /\ ~(w.up = "TABLESPACE" /\ last_token = "INDEX")

\* tokens_not_columns_names + process_body_tokens + after_columns_tokens: returns [type, ac (after_columns'), lt (lt_open'), tagged]
NotColumnName(w, t0) ==
    IF ~check /\ (w.nlt > 0 \/ w.ngt > 0)
    THEN \* get_tag_symbol_value_and_increment: `>` wins over `<` for the type, both move the counter
         [type |-> IF w.ngt > 0 THEN "RT" ELSE "LT", ac |-> after_columns, lt |-> lt_open + w.nlt - w.ngt, body |-> FALSE]
    ELSE IF w.arr THEN [type |-> "ARRAY", ac |-> after_columns, lt |-> lt_open, body |-> FALSE]
    ELSE
      LET t1 == IF is_like THEN Get(w.after, t0)
                ELSE IF ~is_table THEN Get(w.def, t0)
                ELSE IF last_token # "COMMA" THEN Get(w.com, t0)
                ELSE IF ~(columns_def /\ after_columns) THEN Get(w.first, t0) ELSE t0
          \* process_body_tokens
          r == IF (last_par = "RP" /\ lp_open = 0) \/ (after_columns /\ ~columns_def)
               THEN LET t2 == Get(w.after, t1) IN
                    IF t2 # "ID" THEN [type |-> t2, ac |-> TRUE]
                    ELSE IF ~after_columns /\ columns_def THEN [type |-> Get(w.col, t2), ac |-> after_columns]
                    ELSE [type |-> t2, ac |-> after_columns]
               ELSE IF columns_def THEN [type |-> Get(w.col, t1), ac |-> after_columns]
               ELSE IF sequence THEN [type |-> IF w.seq # "" THEN w.seq ELSE "ID", ac |-> after_columns]
               ELSE [type |-> t1, ac |-> after_columns]
      IN  [type |-> r.type, ac |-> r.ac, lt |-> lt_open, body |-> TRUE]

Expect(slot, w, type) ==     \* what the POSITION demands of the token's type (the invariants' vocabulary)
    (IF slot.kind = "name" /\ w.up \notin ClauseOpeners /\ type \notin {"ID", "DQ_STRING"} THEN {"NameIsID"} ELSE {})
    \cup (IF slot.kind = "typestart" /\ w.nlt > 0 /\ type # "LT" THEN {"TypeStartsLT"} ELSE {})
    \cup (IF slot.kind = "comma_in_type" /\ type # "COMMAT" THEN {"CommaInAngle"} ELSE {})
    \cup (IF slot.kind = "comma" /\ type # "COMMA" THEN {"CommaIsComma"} ELSE {})

(* ---- one token ---------------------------------------------------------------------------------------------------- *)
Tok(slot, w) ==
    LET rec(type) == [kind |-> slot.kind, v |-> w.v, type |-> type] IN
    IF w.rule = "DQ" \/ w.rule = "STRING" \/ w.rule = "DOT"
    THEN \* t_DQ_STRING / t_STRING_BASE / t_DOT: only set_last_token
         LET type == IF w.rule = "DQ" THEN "DQ_STRING" ELSE IF w.rule = "STRING" THEN "STRING_BASE" ELSE "DOT" IN
         /\ last_token' = type /\ out' = Append(out, rec(type)) /\ bad' = bad \cup Expect(slot, w, type)
         /\ depth' = depth
         /\ UNCHANGED <<is_table, sequence, columns_def, after_columns, check, last_par, lp_open, is_alter, is_like, lt_open>>
    ELSE IF w.rule = "COLLATE" \/ w.rule = "AUTOINC"
    THEN \* t_COLLATE / t_AUTOINCREMENT: a dedicated token before the column list is closed, a plain ID after it
         LET type == IF ~after_columns THEN (IF w.rule = "COLLATE" THEN "COLLATE" ELSE "AUTOINCREMENT") ELSE "ID" IN
         /\ last_token' = type /\ out' = Append(out, rec(type)) /\ bad' = bad \cup Expect(slot, w, type) /\ depth' = depth
         /\ UNCHANGED <<is_table, sequence, columns_def, after_columns, check, last_par, lp_open, is_alter, is_like, lt_open>>
    ELSE IF w.v = "("
    THEN /\ lp_open' = lp_open + 1 /\ columns_def' = TRUE /\ last_token' = "LP"
         /\ out' = Append(out, rec("LP")) /\ bad' = bad \cup Expect(slot, w, "LP") /\ depth' = depth
         /\ UNCHANGED <<is_table, sequence, after_columns, check, last_par, is_alter, is_like, lt_open>>
    ELSE
      LET t0 == IF w.v = ")" THEN "RP" ELSE "ID"
          nameLike == IsTokenColumnName(w) \/ last_token = "DOT" \/ IsCreationName(w)
          r == IF nameLike THEN [type |-> "ID", ac |-> after_columns, lt |-> lt_open, body |-> FALSE] ELSE NotColumnName(w, t0)
          t3 == IF is_alter /\ w.up \in AlterTokens THEN w.up ELSE r.type
          t4 == IF t3 = "COMMA" /\ r.lt > 0 THEN "COMMAT" ELSE t3                    \* commat_type
          \* set_lexer_tags (only on the tokens_not_columns_names path that reaches it)
          seq1 == IF r.body /\ r.type = "SEQUENCE" THEN TRUE ELSE sequence
          chk1 == IF r.body /\ r.type = "CHECK" THEN TRUE ELSE check
          \* set_lexx_tags / set_parenthesis_tokens
          lp1 == IF t4 = "RP" /\ lp_open > 0 THEN lp_open - 1 ELSE lp_open
          ac1 == IF t4 = "RP" /\ lp_open > 0 /\ lp1 = 0 THEN TRUE ELSE r.ac
      IN  /\ lt_open' = r.lt /\ sequence' = seq1 /\ check' = chk1 /\ lp_open' = lp1 /\ after_columns' = ac1
          /\ last_par' = IF t4 \in {"RP", "LP"} THEN t4 ELSE last_par
          /\ is_alter' = (is_alter \/ t4 = "ALTER")
          /\ is_like' = (is_like \/ t4 = "LIKE")
          /\ is_table' = IF t4 = "LIKE" THEN is_table
                         ELSE IF t4 \in {"TYPE", "DOMAIN", "TABLESPACE"} THEN FALSE
                         ELSE IF t4 \in {"TABLE", "INDEX"} /\ ~(is_alter \/ t4 = "ALTER") THEN TRUE ELSE is_table
          /\ last_token' = t4
          /\ columns_def' = columns_def
          /\ depth' = IF slot.kind \in {"type", "typestart"} THEN depth + w.nlt - w.ngt ELSE depth   \* brackets count in type positions only
          /\ out' = Append(out, rec(t4))
          /\ bad' = bad \cup Expect(slot, w, t4)

Start(t) ==   \* process_line -> set_default_flags_in_lexer, then the statement is handed to the lexer
    /\ tpl = NoTpl
    /\ tpl' = t /\ idx' = 1 /\ out' = <<>> /\ depth' = 0 /\ bad' = {}
    /\ is_table' = (IF "is_table" \in ResetFlags THEN FALSE ELSE is_table)
    /\ sequence' = (IF "sequence" \in ResetFlags THEN FALSE ELSE sequence)
    /\ last_token' = (IF "last_token" \in ResetFlags THEN F ELSE last_token)
    /\ columns_def' = (IF "columns_def" \in ResetFlags THEN FALSE ELSE columns_def)
    /\ after_columns' = (IF "after_columns" \in ResetFlags THEN FALSE ELSE after_columns)
    /\ check' = (IF "check" \in ResetFlags THEN FALSE ELSE check)
    /\ last_par' = (IF "last_par" \in ResetFlags THEN F ELSE last_par)
    /\ lp_open' = (IF "lp_open" \in ResetFlags THEN 0 ELSE lp_open)
    /\ is_alter' = (IF "is_alter" \in ResetFlags THEN FALSE ELSE is_alter)
    /\ is_like' = (IF "is_like" \in ResetFlags THEN FALSE ELSE is_like)
    /\ lt_open' = (IF "lt_open" \in ResetFlags THEN 0 ELSE lt_open)
    /\ hist' = hist

Emit1 ==
    /\ tpl # NoTpl /\ idx <= Len(tpl)
    /\ \E w \in tpl[idx].words : Tok(tpl[idx], w)
    /\ idx' = idx + 1
    /\ UNCHANGED <<tpl, hist>>

Finish ==
    /\ tpl # NoTpl /\ idx > Len(tpl)
    /\ hist' = (IF WithHist THEN Append(hist, out) ELSE hist)
    /\ tpl' = NoTpl /\ idx' = 1
    /\ UNCHANGED <<flags, depth, out, bad>>

Next == (\E t \in Templates : Len(hist) = 0 /\ Start(t)) \/ Emit1 \/ Finish
Spec == Init /\ [][Next]_vars
-----------------------------------------------------------------------------
Done == tpl # NoTpl /\ idx > Len(tpl)
\* C06: wherever a name is expected, every word except the clause openers is typed as an identifier
NameIsID == "NameIsID" \notin bad
\* C09: the `<` nesting counter equals the true depth, commas inside angle brackets are COMMAT, a type leaves depth 0
DepthTracked == lt_open = depth
CommaInAngle == "CommaInAngle" \notin bad /\ "CommaIsComma" \notin bad
TypeClosed == Done => lt_open = 0
\* C09: an angle-bracket type must START with an LT token (the tid production begins with it)
TypeStartsLT == "TypeStartsLT" \notin bad
\* C03 / C17: a statement starts from default flags
FreshAtStart == (tpl # NoTpl /\ idx = 1) =>
                  ~is_table /\ ~sequence /\ last_token = F /\ ~columns_def /\ ~after_columns /\ ~check /\ last_par = F /\ lp_open = 0
                  /\ ~is_alter /\ ~is_like /\ lt_open = 0
\* C11: once the column list is closed the after-columns keyword table is in force
ClauseMode == (Done /\ lp_open = 0 /\ last_par = "RP") => after_columns

EmitBeh == (WithHist /\ Done) => PrintT(<<"BEH", ToJson([toks |-> out, bad |-> bad, lt |-> lt_open, depth |-> depth,
                                                           flags |-> [is_table |-> is_table, sequence |-> sequence, columns_def |-> columns_def,
                                                                      after_columns |-> after_columns, check |-> check, lp_open |-> lp_open,
                                                                      is_alter |-> is_alter, is_like |-> is_like, lt_open |-> lt_open]])>>)
View == <<tpl, idx, flags, depth, out, bad>>
=============================================================================
