---------------------------- MODULE EntryPoints ----------------------------
(***************************************************************************)
(* Layer F of DESIGN.md: the file system as seen by parse_from_file,        *)
(* run(dump=True) and the `sdp` command (simple_ddl_parser/ddl_parser.py    *)
(* parse_from_file, parser.py run dump branch, output/core.py               *)
(* dump_data_to_file, cli.py).                                              *)
(*                                                                          *)
(*   ParseFile(f, dump, tgt)   parse_from_file(path, dump=.., dump_path=..) *)
(*   CliFile(f, nodump, tgt)   sdp <file> [-t tgt] [--no-dump] [-o mode]    *)
(*   CliDir(nodump, tgt)       sdp <dir>: run_for_file for every file whose *)
(*                             name passes correct_extension                *)
(*                                                                          *)
(* A file is [name, stem, ext, content]; `stem` is the name up to its first *)
(* dot (the dump is "<stem>_schema.json"), `ext` its last extension.        *)
(* DirRule = "last_ext" is the contract (every .sql/.ddl/.hql/.bql file);   *)
(* "second_part" is the shipped rule (name.split(".")[1]) kept as negative  *)
(* control.                                                                 *)
(* Serves C19: ReturnsApi, DumpNameAndContent, NoDumpWritesNothing,         *)
(* DirModeIsPerFile.                                                        *)
(***************************************************************************)
EXTENDS Naturals, Sequences, FiniteSets, TLC, Json

CONSTANTS Files,      \* set of input files (records)
          Targets,    \* target directory ids ("missing", "existing", "nested")
          MaxOps,
          DirRule,    \* "last_ext" | "second_part"
          WithHist

VARIABLES disk,    \* set of <<target, file name, content id>>: what has been written under the target directories
          ret,     \* the value the last API call returned (content id of the parsed input) or "none"
          nops,
          prev,    \* disk before the last operation (ghost)
          lastop,
          hist
vars == <<disk, ret, nops, prev, lastop, hist>>

DdlExt == {"sql", "ddl", "hql", "bql"}
DumpName(f) == <<f.stem, "_schema.json">>
Result(f) == <<"result-of", f.content>>       \* what DDLParser(text).run() yields for the file's decoded content

Init == disk = {} /\ ret = "none" /\ nops = 0 /\ prev = {} /\ lastop = [op |-> "none"] /\ hist = <<>>
Log(a) == /\ hist' = (IF WithHist THEN Append(hist, a) ELSE hist) /\ nops' = nops + 1 /\ lastop' = a /\ prev' = disk

\* dump_data_to_file: creates the directory if needed, overwrites an existing dump
Write(d, t, f) == {e \in d : ~(e[1] = t /\ e[2] = DumpName(f))} \cup {<<t, DumpName(f), Result(f)>>}

ParseFile(f, dump, t) ==
    /\ nops < MaxOps
    /\ ret' = Result(f)
    /\ disk' = IF dump THEN Write(disk, t, f) ELSE disk
    /\ Log([op |-> "parse_from_file", f |-> f.name, dump |-> dump, t |-> t])

CliFile(f, nodump, t) ==
    /\ nops < MaxOps
    /\ ret' = Result(f)                                      \* printed with -v / --no-dump
    /\ disk' = IF nodump THEN disk ELSE Write(disk, t, f)
    /\ Log([op |-> "cli_file", f |-> f.name, dump |-> ~nodump, t |-> t])

\* cli.correct_extension
Accepted(f) == IF DirRule = "last_ext" THEN f.ext \in DdlExt ELSE f.second \in DdlExt \cup {""}
WriteAll(d, t, fs) == {e \in d : ~(e[1] = t /\ \E f \in fs : e[2] = DumpName(f))} \cup {<<t, DumpName(f), Result(f)>> : f \in fs}
\* two accepted files with the same stem share one dump file: the later one wins; the specification does not order them
\* (files that directory mode does not accept may share a stem with one it accepts: single-file operations on them overwrite the same dump)
SameStem == \E f, g \in Files : f # g /\ f.stem = g.stem /\ Accepted(f) /\ Accepted(g)
CliDir(nodump, t) ==
    /\ nops < MaxOps /\ ~SameStem
    /\ ret' = "none"
    /\ disk' = IF nodump THEN disk ELSE WriteAll(disk, t, {f \in Files : Accepted(f)})
    /\ Log([op |-> "cli_dir", f |-> "", dump |-> ~nodump, t |-> t])

Next == \/ \E f \in Files, d \in BOOLEAN, t \in Targets : ParseFile(f, d, t)
        \/ \E f \in Files, n \in BOOLEAN, t \in Targets : CliFile(f, n, t)
        \/ \E n \in BOOLEAN, t \in Targets : CliDir(n, t)
Spec == Init /\ [][Next]_vars
-----------------------------------------------------------------------------
FileOf(n) == CHOOSE f \in Files : f.name = n
\* C19: no dump requested => nothing is written
NoDumpWritesNothing == (lastop.op # "none" /\ ~lastop.dump) => disk = prev
\* C19: a dump writes exactly "<stem>_schema.json" under the target, holding the returned result; nothing else changes
DumpNameAndContent ==
    (lastop.op \in {"parse_from_file", "cli_file"} /\ lastop.dump) =>
        LET f == FileOf(lastop.f) IN
        /\ <<lastop.t, DumpName(f), Result(f)>> \in disk
        /\ \A e \in disk : e \in prev \/ (e[1] = lastop.t /\ e[2] = DumpName(f))
        /\ ret = Result(f)
\* C19: directory mode = the single-file command once per .sql/.ddl/.hql/.bql file
DirModeIsPerFile ==
    (lastop.op = "cli_dir" /\ lastop.dump) =>
        /\ \A f \in Files : f.ext \in DdlExt => <<lastop.t, DumpName(f), Result(f)>> \in disk
        /\ \A e \in disk : e \in prev \/ (e[1] = lastop.t /\ \E f \in Files : f.ext \in DdlExt /\ e[2] = DumpName(f))
ReturnsApi == lastop.op = "parse_from_file" => ret = Result(FileOf(lastop.f))

Emit == WithHist => PrintT(<<"BEH", ToJson([hist |-> hist, disk |-> disk])>>)
View == <<disk, ret, nops, prev, lastop>>
=============================================================================
