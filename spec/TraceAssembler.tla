--------------------------- MODULE TraceAssembler ---------------------------
(***************************************************************************)
(* Code -> spec binding for layer L: executions RECORDED from the real      *)
(* library (the guarded `Line` / `ParseStmt` events of parser.py) are        *)
(* validated against the line assembler of DESIGN.md Appendix A, stated      *)
(* here over the FEATURES of a source line (what the code tests of it) and   *)
(* the scalar state of the Parser object.  spec/Assembler.tla states the     *)
(* same machine over piece sequences for generation; this module is its      *)
(* feature-level form, and both are bound to the same real executions.       *)
(*                                                                          *)
(* A recorded line is                                                        *)
(*   f   features of the raw line: hasDash, dashQuoted, hasBO, hasBC,        *)
(*       rawStartsBO, rawStartsBC, lineCommentStart, postBOne, preBCne       *)
(*   c   features of each candidate code text (key = base [+bo] [+bc]):      *)
(*       empty, skip, isSet, startsNew, endsSemi, opens, closes, words3,     *)
(*       hasBC                                                               *)
(*   st  what the library logged after processing the line: pending (is a    *)
(*       statement pending), mlc, setline, setwas, nblock, ncomments, nsub   *)
(* Many traces are validated in one TLC run (tid), one state per line.       *)
(***************************************************************************)
EXTENDS Naturals, Sequences, FiniteSets, TLC, Json, IOUtils

CONSTANTS Strict      \* TRUE: every logged field is compared (internal: a mismatch is model drift); FALSE: only the API-observable comment count

Traces == JsonDeserialize(IOEnv.TRACE_FILE)

VARIABLES tid, k,          \* trace and next line
          pend,            \* a statement is pending
          opens, closes,   \* parentheses counted in the pending statement
          setline,         \* "none" | "other" | "three" (a pending SET line, and whether it has exactly three words)
          setwas, mlc, nblock, ncomments, nsub,
          ok               \* FALSE once a line was rejected
vars == <<tid, k, pend, opens, closes, setline, setwas, mlc, nblock, ncomments, nsub, ok>>

Fresh == /\ pend = FALSE /\ opens = 0 /\ closes = 0 /\ setline = "none" /\ setwas = FALSE /\ mlc = FALSE /\ nblock = 0
         /\ ncomments = 0 /\ nsub = 0
TInit == tid = 1 /\ k = 1 /\ Fresh /\ ok = TRUE

Cur == Traces[tid].ev[k]

\* the candidate code text the mechanism ends up with, as a key into Cur.c
CodeKey(f) ==
    IF mlc THEN "empty"
    ELSE IF f.lineCommentStart THEN "empty"
    ELSE LET base == IF f.hasDash THEN (IF f.dashQuoted THEN "whole" ELSE "preDash")
                     ELSE IF ~f.hasBC /\ ~f.hasBO THEN "whole" ELSE "empty"
             withBO == IF f.hasBO THEN base \o "+bo" ELSE base
         IN  withBO

Step ==
    LET f == Cur.f
        inMlc == mlc
        key0 == CodeKey(f)
        c0 == Cur.c[key0]
        \* `*/` in the code kept so far and an open block: the text after `*/` is appended
        pop == ~inMlc /\ ~f.lineCommentStart /\ c0.hasBC /\ (nblock + (IF f.hasBO THEN 1 ELSE 0)) > 0
        key == IF pop THEN key0 \o "+bc" ELSE key0
        c == Cur.c[key]
        inline == ~inMlc /\ ~f.lineCommentStart
        \* comment items appended by this line
        ncm == IF inMlc THEN 1
               ELSE IF ~inline THEN 0
               ELSE (IF f.hasDash /\ ~f.dashQuoted THEN 1 ELSE 0)
                    + (IF pop THEN (IF f.preBCne THEN 1 ELSE 0) ELSE IF f.hasBO /\ f.postBOne THEN 1 ELSE 0)
        nb == IF inline THEN nblock + (IF f.hasBO THEN 1 ELSE 0) - (IF pop THEN 1 ELSE 0) ELSE nblock
        mlc0 == IF inMlc THEN (IF f.hasBC THEN FALSE ELSE TRUE) ELSE FALSE
        mlc1 == IF f.rawStartsBO /\ ~f.hasBC THEN TRUE ELSE IF f.rawStartsBC THEN FALSE ELSE mlc0
        skip == c.skip
        \* parse_set_statement
        set1 == IF c.isSet THEN [sl |-> IF c.words3 THEN "three" ELSE "other", sw |-> TRUE]
                ELSE IF (setline = "three") \/ (setline # "none" /\ setwas) THEN [sl |-> "none", sw |-> FALSE]
                ELSE [sl |-> setline, sw |-> setwas]
        new == pend /\ opens = closes /\ c.startsNew
        final == c.endsSemi /\ ~set1.sw
        add == ~c.empty /\ ~skip /\ ~set1.sw /\ ~new
        pend1 == pend \/ add
        op1 == IF add THEN opens + c.opens ELSE opens
        cl1 == IF add THEN closes + c.closes ELSE closes
        terminate == (final \/ new) /\ pend1
        goOn == terminate \/ ~(Cur.notLast /\ ~skip)
        doParse == goOn /\ set1.sl = "none" /\ pend1
    IN  /\ ncomments' = ncomments + ncm
        /\ nblock' = nb
        /\ mlc' = mlc1
        /\ setline' = set1.sl /\ setwas' = set1.sw
        /\ nsub' = nsub + (IF doParse THEN 1 ELSE 0)
        /\ pend' = IF goOn THEN new ELSE pend1
        /\ opens' = IF goOn THEN (IF new THEN c.opens ELSE 0) ELSE op1
        /\ closes' = IF goOn THEN (IF new THEN c.closes ELSE 0) ELSE cl1

Matches ==   \* the primed model state against what the library logged after this line
    LET s == Cur.st IN
    /\ ncomments' = s.ncomments                     \* observable: the items of the result's comments entry
    /\ Strict => /\ nsub' = s.nsub /\ pend' = s.pending /\ mlc' = s.mlc /\ setwas' = s.setwas /\ nblock' = s.nblock
                 /\ (setline' = "none") = (s.setline = "none")

NextTrace == /\ tid' = tid + 1 /\ k' = 1 /\ ok' = TRUE
             /\ pend' = FALSE /\ opens' = 0 /\ closes' = 0 /\ setline' = "none" /\ setwas' = FALSE /\ mlc' = FALSE /\ nblock' = 0
             /\ ncomments' = 0 /\ nsub' = 0
TNext ==
    /\ tid <= Len(Traces)
    /\ IF ~ok \/ k > Len(Traces[tid].ev)
       THEN NextTrace                      \* a rejected trace is abandoned (it has been reported), the others are still validated
       ELSE /\ Step
            /\ ok' = Matches
            /\ k' = k + 1 /\ tid' = tid

\* verdict lines: one per trace
Report ==
    /\ (tid <= Len(Traces) /\ ~ok) =>
          PrintT(<<"REJ", ToJson([tid |-> tid, line |-> k - 1, model |-> [pending |-> pend, mlc |-> mlc, setline |-> setline, setwas |-> setwas,
                                                                          nblock |-> nblock, ncomments |-> ncomments, nsub |-> nsub]])>>)
    /\ (tid <= Len(Traces) /\ ok /\ k > Len(Traces[tid].ev)) => PrintT(<<"ACC", ToJson([tid |-> tid])>>)
TInv == TRUE
=============================================================================
