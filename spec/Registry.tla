------------------------------ MODULE Registry ------------------------------
(***************************************************************************)
(* Layer O of DESIGN.md: the output registry (simple_ddl_parser/output/     *)
(* core.py Output.format, output/base_data.py alter methods).               *)
(*                                                                          *)
(* One action per statement result handed to Output.format:                 *)
(*   Create(t)   process_statement_data: a TableData object is appended to  *)
(*               the flat result and registered under get_table_id(...)     *)
(*   Alter(s)    add_alter_to_table / add_index_to_table: the registry is   *)
(*               consulted with the NORMALISED (schema, name) of the target *)
(*               and the live table object is mutated in place              *)
(*   Other(k)    any other entity kind is appended as is                    *)
(*                                                                          *)
(* A name is a pair <<base, spelling>>: "same" = the spelling used when the *)
(* thing was declared, "other" = any other spelling of the same identifier  *)
(* (other letter case, other / no delimiters).  The contract (C04) is that  *)
(* tables are matched on base, i.e. irrespective of spelling.               *)
(*                                                                          *)
(* Routing / AddLoop select the mechanism: "id" / "new" is the contract     *)
(* (and the repaired code); the others are defects kept as named negative   *)
(* controls which TLC must refute.                                          *)
(* Serves C04 (OnlyTarget, Effect*, UnknownRaises), C03 (OrderKept),        *)
(* C13 (GroupLossless), C10/C12 through the exported behaviours.            *)
(***************************************************************************)
EXTENDS Naturals, Sequences, FiniteSets, TLC, Json

CONSTANTS Universe,     \* table ids <<schema, name>> ("" = no schema); contains same-named tables in two schemas
          MaxCreates,   \* tables created per script
          MaxStmts,     \* statements per script
          Kinds,        \* alter / index kinds enabled
          Spells,       \* spellings of an alter's target: subset of {"same","other"} x {"same","other"}
          ColSpells,    \* spellings of the column named by DROP / RENAME / MODIFY
          CNames,       \* constraint names ("" = unnamed)
          NewCols,      \* names available to ADD <column>
          Others,       \* non-table entity kinds that may be interleaved
          Routing,      \* "id" | "name_only" | "spelling"
          AddLoop,      \* "new" | "all"
          DupCreates,   \* BOOLEAN: the same table id may be created twice
          Lean,         \* BOOLEAN: one parameter choice per alter kind (routing-focused generation)
          WithHist

VARIABLES ents,    \* Seq(entity): the flat result, in statement order
          reg,     \* set of <<key, index into ents>>: Output.tables_dict
          err,     \* a ValueError escaped (unknown target)
          created, \* ghost: table ids created so far
          last,    \* ghost: the statement just applied
          nst,     \* statements so far
          hist

vars == <<ents, reg, err, created, last, nst, hist>>

NoStmt == [k |-> "none", t |-> <<"", "">>, sp |-> <<"same", "same">>, c |-> <<"", "same">>, cs |-> <<>>, cn |-> "", x |-> ""]
St(k, t, sp, c, cs, cn, x) == [k |-> k, t |-> t, sp |-> sp, c |-> c, cs |-> cs, cn |-> cn, x |-> x]

Range(s) == {s[i] : i \in DOMAIN s}
\* al: index of the alter.columns entry that IS this dict (columns added by ALTER .. ADD are shared), 0 = none
Col(n, ty, df) == [n |-> n, ty |-> ty, df |-> df, uq |-> FALSE, rf |-> "", al |-> 0]
InitCols == << Col(<<"a", "same">>, "int", ""), Col(<<"b", "same">>, "varchar", ""), Col(<<"c", "same">>, "int", "") >>
Names(cols) == [i \in DOMAIN cols |-> cols[i].n]
Bases(cols) == {cols[i].n[1] : i \in DOMAIN cols}

NewTable(t) == [kind |-> "table", sch |-> t[1], nm |-> t[2], cols |-> InitCols,
                acols |-> <<>>, uniques |-> <<>>, pks |-> <<>>, defaults |-> <<>>, checks |-> <<>>,
                renamed |-> <<>>, dropped |-> <<>>, modified |-> <<>>, index |-> <<>>]

(* utils.get_table_id / normalize_name: the registry key of a (spelled) table name *)
Key(t, sp) == CASE Routing = "id" -> <<t, <<"same", "same">>>>
                [] Routing = "name_only" -> <<<<"", t[2]>>, <<"same", "same">>>>
                [] Routing = "spelling" -> <<t, sp>>

Lookup(k) == IF \E p \in reg : p[1] = k THEN (CHOOSE p \in reg : p[1] = k)[2] ELSE 0

(* first column whose normalised name equals the normalised name given (DROP / RENAME / MODIFY) *)
Find(cols, base) == IF \E i \in DOMAIN cols : cols[i].n[1] = base
                    THEN CHOOSE i \in DOMAIN cols : cols[i].n[1] = base /\ \A j \in 1..(i-1) : cols[j].n[1] # base
                    ELSE 0
RemoveAt(s, i) == [j \in 1..(Len(s) - 1) |-> IF j < i THEN s[j] ELSE s[j + 1]]
SelectSeqP(s, P(_)) == SelectSeq(s, P)

RefCols == <<"x", "y", "z">>

(* ---- effect of one ALTER TABLE / CREATE INDEX result on the live table object ---- *)
AppendMissing(tb, ac, cand) ==
    \* prepare_alter_columns: the candidate entries of alter.columns (given by index) whose normalised name is not
    \* among the table's columns (names taken ONCE, before the loop) are appended to the column list -- the very
    \* same dict, so a later RENAME shows in both places
    LET have == Bases(tb.cols)
        add == SelectSeq(cand, LAMBDA j : ac[j].n[1] \notin have)
    IN  tb.cols \o [i \in 1..Len(add) |->
                       LET e == ac[add[i]]
                       IN  [Col(e.n, IF e.fk THEN "-" ELSE "int", IF e.opt = "dflt" THEN "v1" ELSE "")
                              EXCEPT !.al = add[i], !.uq = (e.opt = "uniq"), !.rf = IF e.opt = "ref" THEN "r" ELSE ""]]

Upto(n) == [i \in 1..n |-> i]
FromTo(a, b) == [i \in 1..(b - a + 1) |-> a + i - 1]

Apply(tb, s) ==
    CASE s.k = "addcol" ->
           LET e == [n |-> s.c, fk |-> FALSE, cn |-> "", rc |-> "", opt |-> s.x]
               ac == Append(tb.acols, e)
               withA == [tb EXCEPT !.acols = ac]
           IN  [withA EXCEPT !.cols = AppendMissing(tb, ac, IF AddLoop = "new" THEN <<Len(ac)>> ELSE Upto(Len(ac)))]
      [] s.k = "fk" ->
           LET es == [i \in DOMAIN s.cs |-> [n |-> s.cs[i], fk |-> TRUE, cn |-> s.cn, rc |-> RefCols[i], opt |-> ""]]
               ac == tb.acols \o es
               withA == [tb EXCEPT !.acols = ac]
           IN  [withA EXCEPT !.cols = AppendMissing(tb, ac, IF AddLoop = "new" THEN FromTo(Len(tb.acols) + 1, Len(ac)) ELSE Upto(Len(ac)))]
      [] s.k = "drop" ->
           LET i == Find(tb.cols, s.c[1])
           IN  IF i = 0 THEN tb ELSE [tb EXCEPT !.dropped = <<tb.cols[i]>>, !.cols = RemoveAt(tb.cols, i)]
      [] s.k = "rename" ->
           LET i == Find(tb.cols, s.c[1])
               to == <<s.x, "same">>
               ren == [tb EXCEPT !.renamed = Append(@, [from |-> s.c, to |-> to])]
           IN  IF i = 0 THEN ren
               ELSE [ren EXCEPT !.cols[i].n = to,
                                !.acols = [j \in DOMAIN @ |-> IF j = tb.cols[i].al THEN [@[j] EXCEPT !.n = to] ELSE @[j]]]
      [] s.k = "modify" ->
           LET i == Find(tb.cols, s.c[1])
           IN  IF i = 0 THEN tb
               ELSE [tb EXCEPT !.modified = <<tb.cols[i]>>, !.cols[i] = Col(s.c, "bigint", "")]
      [] s.k = "unique" ->
           LET u == [tb EXCEPT !.uniques = Append(@, [cn |-> s.cn, cs |-> s.cs])]
           IN  IF Len(s.cs) = 1
               THEN [u EXCEPT !.cols = [i \in DOMAIN @ |-> IF @[i].n = s.cs[1] THEN [@[i] EXCEPT !.uq = TRUE] ELSE @[i]]]
               ELSE u
      [] s.k = "pk" -> [tb EXCEPT !.pks = Append(@, [cn |-> s.cn, cs |-> s.cs])]
      [] s.k = "default" ->
           [tb EXCEPT !.defaults = Append(@, [cn |-> s.cn, cs |-> s.cs, v |-> s.x]),
                      !.cols = [i \in DOMAIN @ |-> IF \E j \in DOMAIN s.cs : @[i].n = s.cs[j]
                                                   THEN [@[i] EXCEPT !.df = s.x] ELSE @[i]]]
      [] s.k = "check" -> [tb EXCEPT !.checks = Append(@, [cn |-> s.cn, e |-> s.x])]
      [] s.k = "index" -> [tb EXCEPT !.index = Append(@, [nm |-> s.cn, uq |-> (s.x = "unique"), cs |-> s.cs])]

-----------------------------------------------------------------------------
Init == /\ ents = <<>> /\ reg = {} /\ err = FALSE /\ created = {} /\ last = NoStmt /\ nst = 0 /\ hist = <<>>

Log(s) == /\ hist' = (IF WithHist THEN Append(hist, s) ELSE hist)
          /\ nst' = nst + 1
NTables == Cardinality({i \in DOMAIN ents : ents[i].kind = "table"})

Create(t) ==
    /\ ~err /\ nst < MaxStmts /\ NTables < MaxCreates
    /\ DupCreates \/ t \notin created
    /\ LET s == St("create", t, <<"same", "same">>, <<"", "same">>, <<>>, "", "")
           k == Key(t, <<"same", "same">>)
       IN  /\ ents' = Append(ents, NewTable(t))
           /\ reg' = {p \in reg : p[1] # k} \cup {<<k, Len(ents) + 1>>}     \* a later CREATE takes the slot over
           /\ created' = created \cup {t}
           /\ last' = s
           /\ Log(s)
    /\ UNCHANGED err

Other(k) ==
    /\ ~err /\ nst < MaxStmts
    /\ LET s == St("other", <<"", "">>, <<"same", "same">>, <<"", "same">>, <<>>, "", k)
       IN  /\ ents' = Append(ents, [kind |-> k])
           /\ last' = s
           /\ Log(s)
    /\ UNCHANGED <<reg, err, created>>

(* the columns an alter may name: those of the target if it exists *)
TargetCols(t) == LET i == Lookup(Key(t, <<"same", "same">>))
                 IN  IF i = 0 THEN {<<"a", "same">>} ELSE Range(Names(ents[i].cols))
Pairs(S) == {<<x, y>> : x \in S, y \in S} \ {<<x, x>> : x \in S}

AlterStmts(t, sp) ==
    LET all == TargetCols(t)
        cs == IF Lean THEN {CHOOSE c \in all : TRUE} ELSE all
        one == {<<c>> : c \in cs}
        two == {<<p[1], p[2]>> : p \in Pairs({c \in cs : c[1] \in {"a", "b"}})}
    IN  [addcol |-> {St("addcol", t, sp, <<n, "same">>, <<>>, "", o) : n \in {m \in NewCols : \A c \in all : c[1] # m},
                                                                     o \in (IF Lean THEN {""} ELSE {"", "ref", "dflt", "uniq"})},
         drop |-> {St("drop", t, sp, <<c[1], q>>, <<>>, "", "") : c \in cs, q \in ColSpells},
         rename |-> {St("rename", t, sp, <<c[1], q>>, <<>>, "", n) : c \in cs, q \in ColSpells,
                                                                   n \in {m \in {"r1"} : \A d \in cs : d[1] # m}},
         modify |-> {St("modify", t, sp, <<c[1], q>>, <<>>, "", "") : c \in cs, q \in ColSpells},
         unique |-> {St("unique", t, sp, <<"", "same">>, l, cn, "") : l \in one \cup two, cn \in CNames},
         pk |-> {St("pk", t, sp, <<"", "same">>, l, cn, "") : l \in one \cup two, cn \in CNames},
         default |-> UNION {{St("default", t, sp, <<"", "same">>, l, cn, v) : l \in one, v \in (IF cn = "" THEN {"v1", "v2"} ELSE {"v1", "v3", "v4"})} : cn \in CNames},
         check |-> {St("check", t, sp, <<"", "same">>, <<>>, cn, "e1") : cn \in CNames},
         fk |-> {St("fk", t, sp, <<"", "same">>, l, cn, "") : l \in one \cup two, cn \in CNames},
         index |-> {St("index", t, sp, <<"", "same">>, [i \in DOMAIN l |-> <<l[i], IF i = 1 THEN d ELSE "ASC">>], "i1", u) :
                       l \in one \cup two, d \in (IF Lean THEN {"DESC"} ELSE {"", "ASC", "DESC"}), u \in (IF Lean THEN {""} ELSE {"", "unique"})}]

Alter(s) ==
    /\ ~err /\ nst < MaxStmts
    /\ LET i == Lookup(Key(s.t, s.sp))
       IN  IF i = 0
           THEN /\ err' = TRUE /\ UNCHANGED <<ents>>
           ELSE /\ ents' = [ents EXCEPT ![i] = Apply(@, s)] /\ UNCHANGED err
    /\ last' = s
    /\ Log(s)
    /\ UNCHANGED <<reg, created>>

Next == /\ ~err /\ nst < MaxStmts
        /\ \/ \E t \in Universe : Create(t)
           \/ \E k \in Others : Other(k)
           \/ \E t \in Universe, sp \in Spells, k \in Kinds : \E s \in AlterStmts(t, sp)[k] : Alter(s)

Spec == Init /\ [][Next]_vars

-----------------------------------------------------------------------------
IsAlter(s) == s.k \notin {"none", "create", "other"}
Ids(es) == [i \in DOMAIN es |-> IF es[i].kind = "table" THEN <<es[i].kind, es[i].sch, es[i].nm>> ELSE <<es[i].kind, "", "">>]
IsPrefix(s, t) == Len(s) <= Len(t) /\ \A i \in DOMAIN s : s[i] = t[i]

\* C04: an ALTER / CREATE INDEX changes the table it names and no other entity
OnlyTarget == [][\A i \in DOMAIN ents : (i \in DOMAIN ents' /\ ents'[i] # ents[i])
                     => (IsAlter(last') /\ ents[i].kind = "table" /\ <<ents[i].sch, ents[i].nm>> = last'.t)]_vars

\* C04: it changes the LATEST table declared under that id, and it does change it
HitsTarget == [][(IsAlter(last') /\ ~err') =>
                   \E i \in DOMAIN ents : /\ ents[i].kind = "table" /\ <<ents[i].sch, ents[i].nm>> = last'.t
                                          /\ ents'[i] = Apply(ents[i], last')
                                          /\ \A j \in DOMAIN ents : j > i => ~(ents[j].kind = "table" /\ <<ents[j].sch, ents[j].nm>> = last'.t)]_vars

\* C04: naming a table the script has not defined raises, and nothing else does
UnknownRaises == err <=> (IsAlter(last) /\ last.t \notin created)

\* C03/C04: entities are only ever appended, in statement order
OrderKept == [][IsPrefix(Ids(ents), Ids(ents'))]_vars

\* C04 effects, stated on the column list, independently of how Apply computes them
ColBases(tb) == [i \in DOMAIN tb.cols |-> tb.cols[i].n[1]]
EffectOnColumns ==
    [][\A i \in DOMAIN ents : (i \in DOMAIN ents' /\ ents'[i] # ents[i] /\ ents[i].kind = "table") =>
         LET o == ColBases(ents[i])  n == ColBases(ents'[i])  s == last'
         IN  CASE s.k = "addcol" -> n = Append(o, s.c[1])
               [] s.k = "drop" -> \E k \in DOMAIN o : o[k] = s.c[1] /\ n = RemoveAt(o, k)
               [] s.k = "rename" -> \E k \in DOMAIN o : o[k] = s.c[1] /\ n = [o EXCEPT ![k] = s.x]
               [] OTHER -> n = o]_vars

\* C04: every alter is recorded exactly once in its section (sections only grow, by one record)
SectionLen(tb) == Len(tb.acols) + Len(tb.uniques) + Len(tb.pks) + Len(tb.defaults) + Len(tb.checks) + Len(tb.renamed) + Len(tb.index)
Recorded ==
    [][\A i \in DOMAIN ents : (i \in DOMAIN ents' /\ ents'[i] # ents[i] /\ ents[i].kind = "table") =>
         LET s == last' IN
         CASE s.k \in {"drop", "modify"} -> SectionLen(ents'[i]) = SectionLen(ents[i])
           [] s.k = "fk" -> SectionLen(ents'[i]) = SectionLen(ents[i]) + Len(s.cs)
           [] OTHER -> SectionLen(ents'[i]) = SectionLen(ents[i]) + 1]_vars

\* C04: flags follow single-column ADD UNIQUE / ADD DEFAULT FOR, on the named column only
FlagsOnNamedColumn ==
    [][\A i \in DOMAIN ents : (i \in DOMAIN ents' /\ ents'[i] # ents[i] /\ ents[i].kind = "table"
                                /\ last'.k \in {"unique", "default", "pk", "check", "index", "fk"}
                                /\ Len(ents'[i].cols) = Len(ents[i].cols)) =>
          \A k \in DOMAIN ents[i].cols :
             LET oc == ents[i].cols[k]  nc == ents'[i].cols[k]  s == last'
                 named == Len(s.cs) = 1 /\ oc.n = s.cs[1]
             IN  /\ nc.n = oc.n /\ nc.ty = oc.ty
                 /\ nc.uq = (oc.uq \/ (s.k = "unique" /\ named))
                 /\ nc.df = (IF s.k = "default" /\ named THEN s.x ELSE oc.df)]_vars

\* C13: the grouped view is a lossless, order-preserving regrouping (bucket rule: first marker key wins)
Bucket(k) == CASE k = "table" -> "tables" [] k = "sequence" -> "sequences" [] k = "type" -> "types"
               [] k = "domain" -> "domains" [] k = "schema" -> "schemas" [] k = "tablespace" -> "tablespaces"
               [] k = "database" -> "databases" [] k = "ddl_property" -> "ddl_properties"
               [] k = "liketable" -> "tables"      \* CREATE TABLE zlike LIKE <table>: a table entity without columns, never a target here
AlwaysBuckets == {"tables", "types", "sequences", "domains", "schemas", "ddl_properties"}
\* the mechanism (Output.group_by_type_result): the FIRST key of keys_map present in the entity dict selects the bucket
MarkerOrder == <<"table_name", "sequence_name", "type_name", "domain_name", "schema_name", "tablespace_name", "database_name", "value">>
BucketOfKey == [table_name |-> "tables", sequence_name |-> "sequences", type_name |-> "types", domain_name |-> "domains",
                schema_name |-> "schemas", tablespace_name |-> "tablespaces", database_name |-> "databases", value |-> "ddl_properties"]
\* marker keys each entity kind carries (checked against the real entity dicts by the harness)
Markers(k) == CASE k = "table" -> {"table_name"} [] k = "sequence" -> {"sequence_name"} [] k = "type" -> {"type_name"}
                [] k = "domain" -> {"domain_name"} [] k = "schema" -> {"schema_name"} [] k = "tablespace" -> {"tablespace_name"}
                [] k = "database" -> {"database_name"} [] k = "ddl_property" -> {"value"} [] k = "liketable" -> {"table_name"}
MechBucket(k) == LET i == CHOOSE i \in DOMAIN MarkerOrder : MarkerOrder[i] \in Markers(k) /\ \A j \in 1..(i-1) : MarkerOrder[j] \notin Markers(k)
                 IN  BucketOfKey[MarkerOrder[i]]
BucketRuleAgrees == \A i \in DOMAIN ents : MechBucket(ents[i].kind) = Bucket(ents[i].kind)
Grouped == LET bs == AlwaysBuckets \cup {Bucket(ents[i].kind) : i \in DOMAIN ents}
           IN  [b \in bs |-> SelectSeq([i \in DOMAIN ents |-> i], LAMBDA i : Bucket(ents[i].kind) = b)]
GroupLossless == LET g == Grouped IN
    /\ AlwaysBuckets \subseteq DOMAIN g
    /\ \A i \in DOMAIN ents : \E b \in DOMAIN g : \E k \in DOMAIN g[b] : g[b][k] = i
    /\ \A b \in DOMAIN g : \A k1, k2 \in DOMAIN g[b] : k1 < k2 => g[b][k1] < g[b][k2]
    /\ \A b1, b2 \in DOMAIN g : b1 # b2 => Range(g[b1]) \cap Range(g[b2]) = {}

TypeOK == /\ err \in BOOLEAN /\ created \subseteq Universe
          /\ \A p \in reg : p[2] \in DOMAIN ents /\ ents[p[2]].kind = "table"

Emit == WithHist => PrintT(<<"BEH", ToJson([hist |-> hist, err |-> err, ents |-> ents, grouped |-> Grouped])>>)

View == <<ents, reg, err, created, last, nst>>
=============================================================================
