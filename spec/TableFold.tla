------------------------------ MODULE TableFold ------------------------------
(***************************************************************************)
(* Layer G of DESIGN.md for CREATE TABLE: the folds the grammar performs    *)
(* (simple_ddl_parser/dialects/sql.py) and BaseData.__post_init__           *)
(* (output/base_data.py).  One action per production group:                 *)
(*                                                                          *)
(*   BeginTable        table_name                                            *)
(*   Column(tf)        column : id c_type ...        (p_column)              *)
(*   Opt(o)            defcolumn : defcolumn <opt>   (p_defcolumn fold)      *)
(*   Item(it)          expr : expr COMMA <item>      (p_expression_table,    *)
(*                     process_unique_and_primary_constraint,                *)
(*                     add_ref_information_to_table, set_constraint)         *)
(*   Close             expr RP  +  __post_init__ (set_unique_columns,        *)
(*                     populate_keys, normalize_ref_columns_in_final_output) *)
(*                                                                          *)
(* `decl` is what the statement declares (ghost); `mech` is the dict the     *)
(* code builds, transcribed field by field; Contract(decl) is what the       *)
(* properties C01 / C02 say must be reported.  Where the shipped mechanism   *)
(* knowingly departs from the contract the departure is detected by a named  *)
(* predicate (Dev...) and collected in `dev`; the invariants are             *)
(* `dev = {} => Report(mech) = Contract(decl)` plus one invariant per tag    *)
(* stating what the deviation does.                                          *)
(* Serves C01 (ColumnsExact, AppendOnly), C02 (PKExact, UniqueFlags,         *)
(* ConstraintsExact, RefsOnce, ChecksOnce), C09 (type form is a parameter),  *)
(* C12 (ShapeOK).                                                            *)
(***************************************************************************)
EXTENDS Naturals, Sequences, FiniteSets, TLC, Json

CONSTANTS ColNames,    \* sequence of column names; the i-th declared column is ColNames[i]
          MaxCols,
          TypeForms,   \* abstract type forms usable for the focus column
          FocusAt,     \* index of the focus column (the one that takes options / type forms); others are canonical
          Opts,        \* option records [g |-> group, v |-> value] usable on the focus column
          MaxOpts,
          ItemKinds,   \* subset of {"pk","uniq","check","fk","cpk","cuniq","ccheck","cfk"}
          ItemCols,    \* column lists an item may name (sequences over ColNames)
          MaxItems,
          Refs,        \* reference ids usable by REFERENCES / FOREIGN KEY
          CheckIds,    \* check expression ids usable by table-level CHECK
          Variant,     \* "shipped" | fold defects kept as negative controls
          WithHist

VARIABLES phase,   \* "start" | "body" | "done"
          decl,    \* [cols |-> Seq([n, tf, opts]), items |-> Seq(item)]   item.pos = columns declared before it
          mech,    \* the dict being built (see NewMech)
          last,    \* "col" | "item" | "none": what the last body element was
          hist

vars == <<phase, decl, mech, last, hist>>

Range(s) == {s[i] : i \in DOMAIN s}
ExtraGroups == {"collate", "autoinc", "encode", "generated", "onupdate", "timezone", "encrypt", "tag", "identity", "charset"}
NoRef == <<"none", 0>>     \* a reference is <<ref id, position in the referenced column list>>
MCol(n, tf) == [n |-> n, tf |-> tf, nullable |-> TRUE, df |-> "none", pk |-> FALSE, uq |-> FALSE, rf |-> NoRef,
                rfshape |-> "column", ck |-> "none", cm |-> "none", ex |-> {}]
NewMech == [columns |-> <<>>, primary_key |-> <<>>, unique_statement |-> <<>>, unique |-> <<>>,
            c_pks |-> <<>>, c_uniques |-> <<>>, c_refs |-> <<>>, c_checks |-> <<>>,
            checks |-> <<>>, ref_columns |-> <<>>]

Init == /\ phase = "start" /\ decl = [cols |-> <<>>, items |-> <<>>] /\ mech = NewMech /\ last = "none" /\ hist = <<>>

Log(a) == hist' = IF WithHist THEN Append(hist, a) ELSE hist

BeginTable == /\ phase = "start" /\ phase' = "body" /\ Log([a |-> "begin"]) /\ UNCHANGED <<decl, mech, last>>

Column(tf) ==
    /\ phase = "body" /\ Len(decl.cols) < MaxCols
    /\ (tf # "int") => Len(decl.cols) + 1 = FocusAt
    /\ LET n == ColNames[Len(decl.cols) + 1] IN
       /\ decl' = [decl EXCEPT !.cols = Append(@, [n |-> n, tf |-> tf, opts |-> <<>>])]
       /\ mech' = [mech EXCEPT !.columns = Append(@, MCol(n, tf))]
    /\ last' = "col"
    /\ Log([a |-> "col", tf |-> tf])
    /\ UNCHANGED phase

(* ---- p_defcolumn: fold one option into the column dict ---------------------------------------- *)
Fold(c, o, prev) ==
    CASE o.g = "null" -> [c EXCEPT !.nullable = (o.v = "null"),
                                   \* `defcolumn ref null`: the reference dict is folded by the two-symbol production,
                                   \* get_column_properties never sees it, its `columns` list is not reduced to `column`
                                   !.rfshape = IF prev = "ref" THEN "columns" ELSE @]
      [] o.g = "default" -> [c EXCEPT !.df = IF Variant = "default_lost_after_ref" /\ prev = "ref" THEN @ ELSE o.v]
      [] o.g = "pk" -> [c EXCEPT !.pk = TRUE, !.nullable = IF Variant = "pk_keeps_nullable" THEN @ ELSE FALSE]
      [] o.g = "unique" -> [c EXCEPT !.uq = IF Variant = "unique_needs_fresh" THEN ~c.pk ELSE TRUE]
      [] o.g = "ref" -> [c EXCEPT !.rf = <<o.v, 1>>, !.rfshape = "column"]
      [] o.g = "check" -> [c EXCEPT !.ck = o.v]
      [] o.g = "comment" -> [c EXCEPT !.cm = o.v]
      \* growth path (DESIGN 3.10): the remaining column options the grammar folds (COLLATE, AUTO_INCREMENT, ENCODE, GENERATED .. AS,
      \* ON UPDATE, WITH TIME ZONE, ENCRYPT, WITH TAG, IDENTITY, CHARACTER SET): each adds its own key and touches nothing else
      [] o.g \in ExtraGroups -> [c EXCEPT !.ex = @ \cup {o.v}]

Opt(o) ==
    /\ phase = "body" /\ last = "col" /\ Len(decl.cols) = FocusAt
    /\ LET k == Len(decl.cols)
           dc == decl.cols[k]
       IN  /\ Len(dc.opts) < MaxOpts
           /\ \A i \in DOMAIN dc.opts : dc.opts[i].g # o.g        \* one option per group
           /\ decl' = [decl EXCEPT !.cols[k].opts = Append(@, o)]
           /\ mech' = [mech EXCEPT !.columns[k] = Fold(@, o, IF dc.opts = <<>> THEN "type" ELSE dc.opts[Len(dc.opts)].g)]
    /\ Log([a |-> "opt", o |-> o])
    /\ UNCHANGED <<phase, last>>

(* ---- p_expression_table: fold one table-level item ------------------------------------------------- *)
UCName(cs) == "UC_gen"            \* stands for the generated name "UC_" + "_".join(columns)
Item(it) ==
    /\ phase = "body" /\ Len(decl.cols) >= 1 /\ Len(decl.items) < MaxItems
    /\ decl' = [decl EXCEPT !.items = Append(@, [it EXCEPT !.pos = Len(decl.cols)])]
    /\ mech' =
         CASE it.k = "pk" -> [mech EXCEPT !.primary_key = it.cs]                 \* data.update: a later one overwrites
           [] it.k = "uniq" ->
                IF Len(it.cs) > 1
                THEN [mech EXCEPT !.unique_statement = it.cs,
                                  !.c_uniques = Append(@, [cn |-> UCName(it.cs), cs |-> it.cs])]
                ELSE [mech EXCEPT !.unique_statement = it.cs,
                                  \* ... and remembered in the parser-only `unique` list for columns declared later
                                  \* (Variant "uniq_not_deferred" = the shipped defect repaired by the fix: commit)
                                  !.unique = IF Variant = "uniq_not_deferred" THEN @ ELSE Append(@, it.cs[1]),
                                  \* flagged now, among the columns declared SO FAR
                                  !.columns = [i \in DOMAIN @ |-> IF @[i].n = it.cs[1] THEN [@[i] EXCEPT !.uq = TRUE] ELSE @[i]]]
           [] it.k = "cuniq" -> [mech EXCEPT !.unique_statement = it.cs, !.c_uniques = Append(@, [cn |-> it.cn, cs |-> it.cs])]
           [] it.k = "cpk" -> [mech EXCEPT !.c_pks = Append(@, [cn |-> it.cn, cs |-> it.cs])]
           [] it.k = "check" -> [mech EXCEPT !.checks = Append(@, [cn |-> "", e |-> it.e])]
           [] it.k = "ccheck" -> [mech EXCEPT !.checks = Append(@, [cn |-> it.cn, e |-> it.e]),
                                              !.c_checks = Append(@, [cn |-> it.cn, e |-> it.e])]
           [] it.k = "fk" -> [mech EXCEPT !.ref_columns = @ \o [i \in DOMAIN it.cs |-> [n |-> it.cs[i], r |-> it.r, k |-> i]]]
           [] it.k = "cfk" -> [mech EXCEPT !.c_refs = Append(@, [cn |-> it.cn, cs |-> it.cs, r |-> it.r])]
    /\ last' = "item"
    /\ Log([a |-> "item", it |-> it])
    /\ UNCHANGED phase

(* ---- expr RP + BaseData.__post_init__ ------------------------------------------------------------------ *)
PostInit(m) ==
    LET \* set_unique_columns: `len(check_in) == 1 and column["name"] in check_in` is evaluated on the unique_statement
        \* DICT ({"columns": [...]}), i.e. it looks the column name up among the dict's keys: nothing is ever flagged
        \* here (unless a column is literally called "columns"); the constraints branch reads the key "unique", which
        \* set_constraint never writes ("uniques").  Transcribed as the no-op it is.
        \* add_unique_columns: columns named in the `unique` list are flagged
        u1 == [m EXCEPT !.columns = [i \in DOMAIN @ |-> IF @[i].n \in Range(m.unique) THEN [@[i] EXCEPT !.uq = TRUE] ELSE @[i]]]
        \* populate_keys
        inl == SelectSeq([i \in DOMAIN u1.columns |-> u1.columns[i]], LAMBDA c : c.pk)
        frc == LET F[i \in 0..Len(u1.c_pks)] == IF i = 0 THEN <<>> ELSE F[i - 1] \o u1.c_pks[i].cs IN F[Len(u1.c_pks)]
        pk == IF u1.primary_key # <<>> THEN u1.primary_key ELSE [i \in DOMAIN inl |-> inl[i].n] \o frc
        u2 == [u1 EXCEPT !.primary_key = pk,
                         !.columns = [i \in DOMAIN @ |-> IF @[i].n \in Range(pk) /\ Variant # "pk_keeps_nullable"
                                                          THEN [@[i] EXCEPT !.nullable = FALSE] ELSE @[i]]]
        \* normalize_ref_columns_in_final_output: every ref_columns entry is copied onto the column of that name
        LastRef(n) == LET idx == {j \in DOMAIN u2.ref_columns : u2.ref_columns[j].n = n}
                      IN  IF idx = {} THEN 0 ELSE CHOOSE j \in idx : \A q \in idx : q <= j
    IN  [u2 EXCEPT !.columns = [i \in DOMAIN @ |->
            LET j == LastRef(@[i].n) IN
            IF j = 0 THEN @[i] ELSE [@[i] EXCEPT !.rf = <<u2.ref_columns[j].r, u2.ref_columns[j].k>>, !.rfshape = "column"]]]

Close ==
    /\ phase = "body" /\ Len(decl.cols) >= 1
    /\ phase' = "done"
    /\ mech' = PostInit(mech)
    /\ Log([a |-> "close"])
    /\ UNCHANGED <<decl, last>>

NoItem == [k |-> "none", cn |-> "", cs |-> <<>>, r |-> NoRef, e |-> "none", pos |-> 0]
Items == {[NoItem EXCEPT !.k = k, !.cs = cs] : k \in ItemKinds \cap {"pk", "uniq"}, cs \in ItemCols}
    \cup {[NoItem EXCEPT !.k = k, !.cs = cs, !.cn = IF k = "cpk" THEN "k1" ELSE "k4"] : k \in ItemKinds \cap {"cpk", "cuniq"}, cs \in ItemCols}
    \cup {[NoItem EXCEPT !.k = "check", !.e = e] : e \in (IF "check" \in ItemKinds THEN CheckIds ELSE {})}
    \cup {[NoItem EXCEPT !.k = "ccheck", !.e = e, !.cn = "k2"] : e \in (IF "ccheck" \in ItemKinds THEN CheckIds ELSE {})}
    \cup {[NoItem EXCEPT !.k = "fk", !.cs = cs, !.r = r] : cs \in (IF "fk" \in ItemKinds THEN ItemCols ELSE {}), r \in Refs}
    \cup {[NoItem EXCEPT !.k = "cfk", !.cs = cs, !.r = r, !.cn = "k3"] : cs \in (IF "cfk" \in ItemKinds THEN ItemCols ELSE {}), r \in Refs}

\* the domain of C02: one primary-key declaration style per table; an item names declared or to-be-declared columns
PKInline == \E i \in DOMAIN decl.cols : \E j \in DOMAIN decl.cols[i].opts : decl.cols[i].opts[j].g = "pk"
PKItems == {i \in DOMAIN decl.items : decl.items[i].k \in {"pk", "cpk"}}
SameItem(x, y) == x.k = y.k /\ x.cs = y.cs /\ x.r = y.r /\ x.e = y.e
ItemOK(it) == /\ it.k \in {"pk", "cpk"} => (~PKInline /\ PKItems = {})
              /\ \A i \in DOMAIN decl.items : ~SameItem(decl.items[i], it) /\ (it.cn # "" => decl.items[i].cn # it.cn)
              /\ \A i \in DOMAIN it.cs : \E j \in 1..MaxCols : ColNames[j] = it.cs[i]
OptOK(o) == /\ o.g = "pk" => PKItems = {}
            \* IDENTITY(..) and CHARACTER SET .. are suffixes of the type: only directly after it
            /\ (o.g \in {"identity", "charset"} /\ Len(decl.cols) > 0) => decl.cols[Len(decl.cols)].opts = <<>>

Next == \/ BeginTable
        \/ \E tf \in TypeForms \cup {"int"} : Column(tf)
        \/ \E o \in Opts : OptOK(o) /\ Opt(o)
        \/ \E it \in Items : ItemOK(it) /\ Item(it)
        \/ Close

Spec == Init /\ [][Next]_vars

-----------------------------------------------------------------------------
(* What the statement declares, as C01 / C02 read it (order of options irrelevant) *)
Has(dc, g) == \E j \in DOMAIN dc.opts : dc.opts[j].g = g
Val(dc, g) == dc.opts[CHOOSE j \in DOMAIN dc.opts : dc.opts[j].g = g].v
DeclNames == [i \in DOMAIN decl.cols |-> decl.cols[i].n]
ItemsOf(K) == SelectSeq(decl.items, LAMBDA it : it.k \in K)
Flat(seqOfSeq) == LET F[i \in 0..Len(seqOfSeq)] == IF i = 0 THEN <<>> ELSE F[i - 1] \o seqOfSeq[i] IN F[Len(seqOfSeq)]
DeclPK == LET inl == SelectSeq(decl.cols, LAMBDA dc : Has(dc, "pk"))
              its == ItemsOf({"pk", "cpk"})
          IN  [i \in DOMAIN inl |-> inl[i].n] \o Flat([i \in DOMAIN its |-> its[i].cs])
SoleUnnamedUnique(n) == \E i \in DOMAIN decl.items : decl.items[i].k = "uniq" /\ decl.items[i].cs = <<n>>
SoleNamedUnique(n) == \E i \in DOMAIN decl.items : decl.items[i].k = "cuniq" /\ decl.items[i].cs = <<n>>
\* the reference a column ends up with: inline REFERENCES, or position k of an unnamed FOREIGN KEY list
FKOn(n) == UNION {{<<decl.items[i].r, j>> : j \in {y \in DOMAIN decl.items[i].cs : decl.items[i].cs[y] = n}} :
                      i \in {x \in DOMAIN decl.items : decl.items[x].k = "fk"}}
ContractCol(dc) ==
    [n |-> dc.n, tf |-> dc.tf,
     nullable |-> IF dc.n \in Range(DeclPK) \/ Has(dc, "pk") THEN FALSE
                  ELSE IF Has(dc, "null") THEN Val(dc, "null") = "null" ELSE TRUE,
     df |-> IF Has(dc, "default") THEN Val(dc, "default") ELSE "none",
     uq |-> Has(dc, "unique") \/ SoleUnnamedUnique(dc.n),
     ck |-> IF Has(dc, "check") THEN Val(dc, "check") ELSE "none",
     cm |-> IF Has(dc, "comment") THEN Val(dc, "comment") ELSE "none",
     ex |-> {dc.opts[j].v : j \in {i \in DOMAIN dc.opts : dc.opts[i].g \in ExtraGroups}}]
Contract ==
    [cols |-> [i \in DOMAIN decl.cols |-> ContractCol(decl.cols[i])],
     pk |-> DeclPK,
     named |-> {[k |-> it.k, cn |-> it.cn, cs |-> it.cs] : it \in {x \in Range(decl.items) : x.k \in {"cpk", "cuniq"}}},
     multi |-> {it.cs : it \in {x \in Range(decl.items) : x.k = "uniq" /\ Len(x.cs) > 1}},
     checks |-> [i \in DOMAIN ItemsOf({"check", "ccheck"}) |-> [cn |-> ItemsOf({"check", "ccheck"})[i].cn, e |-> ItemsOf({"check", "ccheck"})[i].e]],
     refs |-> {[cs |-> <<dc.n>>, r |-> <<Val(dc, "ref"), 1>>] : dc \in {x \in Range(decl.cols) : Has(x, "ref")}}
              \cup UNION {{[cs |-> <<n>>, r |-> x] : x \in FKOn(n)} : n \in Range(DeclNames)}
              \cup {[cs |-> it.cs, r |-> <<it.r, 0>>] : it \in {x \in Range(decl.items) : x.k = "cfk"}}]

(* What the mechanism reports, in the same vocabulary *)
Report ==
    [cols |-> [i \in DOMAIN mech.columns |->
                 [n |-> mech.columns[i].n, tf |-> mech.columns[i].tf, nullable |-> mech.columns[i].nullable,
                  df |-> mech.columns[i].df, uq |-> mech.columns[i].uq, ck |-> mech.columns[i].ck, cm |-> mech.columns[i].cm,
                  ex |-> mech.columns[i].ex]],
     pk |-> mech.primary_key,
     named |-> {[k |-> "cpk", cn |-> x.cn, cs |-> x.cs] : x \in Range(mech.c_pks)}
               \cup {[k |-> "cuniq", cn |-> x.cn, cs |-> x.cs] : x \in {y \in Range(mech.c_uniques) : y.cn # "UC_gen"}},
     multi |-> {x.cs : x \in {y \in Range(mech.c_uniques) : y.cn = "UC_gen"}},
     checks |-> mech.checks,
     refs |-> {[cs |-> <<c.n>>, r |-> c.rf] : c \in {x \in Range(mech.columns) : x.rf # NoRef}}
              \cup {[cs |-> x.cs, r |-> <<x.r, 0>>] : x \in Range(mech.c_refs)}]

(* ---- named deviations of the shipped mechanism (each confirmed on the real code; see known_findings.json) ---- *)
\* the sole column of a named UNIQUE constraint is flagged iff that constraint is the last UNIQUE item (property leaves it open)
NamedSole == {n \in Range(DeclNames) : SoleNamedUnique(n)}
\* a column named by two foreign keys / an inline reference and a foreign key keeps one reference only
DevRefTwice == \E n \in Range(DeclNames) : Cardinality({x \in Contract.refs : x.cs = <<n>>}) > 1
\* REFERENCES directly followed by NULL / NOT NULL: references.columns (list) instead of references.column
DevRefNull == \E i \in DOMAIN mech.columns : mech.columns[i].rfshape = "columns"
Dev == (IF DevRefTwice THEN {"ref_twice"} ELSE {})
       \cup (IF DevRefNull THEN {"ref_then_null"} ELSE {})

Judged(rep) == [rep EXCEPT !.cols = [i \in DOMAIN @ |-> IF @[i].n \in NamedSole THEN [@[i] EXCEPT !.uq = FALSE] ELSE @[i]]]

Done == phase = "done"
\* C01
ColumnsExact == Done => /\ [i \in DOMAIN Report.cols |-> Report.cols[i].n] = DeclNames
                        /\ \A i \in DOMAIN decl.cols :
                             LET r == Report.cols[i]  c == Contract.cols[i]
                             IN  r.tf = c.tf /\ r.nullable = c.nullable /\ r.df = c.df /\ r.ck = c.ck /\ r.cm = c.cm /\ r.ex = c.ex
AppendOnly == [][Len(mech'.columns) >= Len(mech.columns)
                 /\ \A i \in DOMAIN mech.columns : mech'.columns[i].n = mech.columns[i].n /\ mech'.columns[i].tf = mech.columns[i].tf]_vars
\* C02
PKExact == Done => /\ Report.pk = Contract.pk
                   /\ \A i \in DOMAIN Report.cols : Report.cols[i].n \in Range(Report.pk) => ~Report.cols[i].nullable
UniqueFlags == Done => Judged(Report).cols = Judged(Contract).cols
ConstraintsExact == Done => Report.named = Contract.named /\ Report.multi = Contract.multi
RefsOnce == (Done /\ "ref_twice" \notin Dev) => Report.refs = Contract.refs
ChecksOnce == Done => Report.checks = Contract.checks
\* C12
ShapeOK == Done => \A i \in DOMAIN mech.columns : mech.columns[i].nullable \in BOOLEAN /\ mech.columns[i].uq \in BOOLEAN

Emit == (WithHist /\ Done) => PrintT(<<"BEH", ToJson([hist |-> hist, obs |-> Judged(Contract), dev |-> Dev, open |-> NamedSole])>>)
View == <<phase, decl, mech, last>>
=============================================================================
