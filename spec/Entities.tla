------------------------------ MODULE Entities ------------------------------
(***************************************************************************)
(* Layer G of DESIGN.md for the non-table entities, at statement level:     *)
(*                                                                          *)
(*   BeginSeq(f)   seq_name : create_seq id [DOT id]                         *)
(*   SeqOpt(o)     expr : expr INCREMENT [BY] id | START [WITH] id | ...     *)
(*                 (p_expression_seq: one dict key per option production)    *)
(*   EndStmt       the statement result is handed to Output                  *)
(*   Declare(k,f)  CREATE TYPE / DOMAIN / SCHEMA / DATABASE / TABLESPACE     *)
(*                 declaration forms (one production group each)             *)
(*   KwTable       a CREATE TABLE whose columns are named like sequence      *)
(*                 option keywords (start, cache, minvalue, increment)       *)
(*                                                                          *)
(* together with the one lexer flag these statements depend on:             *)
(* `seqmode` (lexer.sequence) is raised by the SEQUENCE token and must be    *)
(* lowered before the next statement (set_default_flags_in_lexer).           *)
(* ResetSeq = FALSE is the defect kept as negative control.                  *)
(* Serves C17 (OneKeyPerOption, ValuesExact, NoLeak, SeqModeLocal) and       *)
(* C18 (OneEntityExact).                                                     *)
(***************************************************************************)
EXTENDS Naturals, Sequences, FiniteSets, TLC, Json

CONSTANTS Groups,      \* option groups usable: subset of {"increment","start","minvalue","maxvalue","cache","order"}
          Forms,       \* [group -> set of forms]  e.g. increment -> {"INCREMENT","INCREMENT BY"}
          Values,      \* abstract integer value ids
          MaxOpts,     \* options per sequence
          MaxStmts,    \* statements per script
          Kinds,       \* C18 entity declaration forms usable: set of <<kind, form>>
          WithTable,   \* BOOLEAN: the keyword-named table may appear
          ResetSeq,    \* BOOLEAN: lexer.sequence is reset at every statement start (contract)
          WithHist

VARIABLES ents,     \* finished entities, in order
          cur,      \* the sequence being assembled: [f, kv] or NoCur
          decl,     \* ghost: options written for the current sequence, in order
          seqmode,  \* lexer.sequence
          hist

vars == <<ents, cur, decl, seqmode, hist>>
Range(s) == {s[i] : i \in DOMAIN s}
NoCur == [f |-> "none", kv |-> <<>>]

\* the dict key an option form writes, and the value it stores
KeyOf(form) == CASE form = "INCREMENT" -> "increment" [] form = "INCREMENT BY" -> "increment_by"
                 [] form = "START" -> "start" [] form = "START WITH" -> "start_with"
                 [] form = "MINVALUE" -> "minvalue" [] form = "NO MINVALUE" -> "minvalue"
                 [] form = "MAXVALUE" -> "maxvalue" [] form = "NO MAXVALUE" -> "maxvalue"
                 [] form = "CACHE" -> "cache" [] form = "CACHE n" -> "cache"
                 [] form = "ORDER" -> "order" [] form = "NOORDER" -> "noorder"
TakesValue(form) == form \in {"INCREMENT", "INCREMENT BY", "START", "START WITH", "MINVALUE", "MAXVALUE", "CACHE n"}
Stored(form, v) == IF TakesValue(form) THEN v ELSE IF form \in {"NO MINVALUE", "NO MAXVALUE"} THEN "False" ELSE "True"

Init == ents = <<>> /\ cur = NoCur /\ decl = <<>> /\ seqmode = FALSE /\ hist = <<>>
Log(a) == hist' = IF WithHist THEN Append(hist, a) ELSE hist
NStmts == Len(ents) + (IF cur = NoCur THEN 0 ELSE 1)
StmtStart == IF ResetSeq THEN FALSE ELSE seqmode      \* set_default_flags_in_lexer

BeginSeq(f) ==
    /\ cur = NoCur /\ NStmts < MaxStmts
    /\ cur' = [f |-> f, kv |-> <<>>] /\ decl' = <<>>
    /\ seqmode' = TRUE                                 \* set_lexer_tags on the SEQUENCE token
    /\ Log([a |-> "seq", f |-> f])
    /\ UNCHANGED ents

\* the kv list models the Python dict: update() replaces the value of an existing key in place
Update(kv, k, v) == IF \E i \in DOMAIN kv : kv[i][1] = k
                    THEN [i \in DOMAIN kv |-> IF kv[i][1] = k THEN <<k, v>> ELSE kv[i]]
                    ELSE Append(kv, <<k, v>>)

SeqOpt(g, form, v) ==
    /\ cur # NoCur /\ Len(decl) < MaxOpts
    /\ \A i \in DOMAIN decl : decl[i].g # g
    /\ decl' = Append(decl, [g |-> g, form |-> form, v |-> v])
    /\ cur' = [cur EXCEPT !.kv = Update(@, KeyOf(form), Stored(form, v))]
    /\ Log([a |-> "opt", g |-> g, form |-> form, v |-> v])
    /\ UNCHANGED <<ents, seqmode>>

EndSeq ==
    /\ cur # NoCur
    /\ ents' = Append(ents, [kind |-> "sequence", f |-> cur.f, kv |-> cur.kv, ok |-> TRUE])
    /\ cur' = NoCur /\ decl' = <<>>
    /\ Log([a |-> "end"])
    /\ UNCHANGED seqmode

Declare(k, f) ==
    /\ cur = NoCur /\ NStmts < MaxStmts
    /\ ents' = Append(ents, [kind |-> k, f |-> f, kv |-> <<>>, ok |-> TRUE])
    /\ seqmode' = StmtStart
    /\ Log([a |-> "declare", k |-> k, f |-> f])
    /\ UNCHANGED <<cur, decl>>

\* a table whose column names are sequence keywords: typed as names only if the sequence mode is off
KwTable ==
    /\ cur = NoCur /\ NStmts < MaxStmts /\ WithTable
    /\ ents' = Append(ents, [kind |-> "kwtable", f |-> "kw", kv |-> <<>>, ok |-> ~StmtStart])
    /\ seqmode' = StmtStart
    /\ Log([a |-> "kwtable"])
    /\ UNCHANGED <<cur, decl>>

Next == \/ \E f \in {"plain", "schema"} : BeginSeq(f)
        \/ \E g \in Groups : \E form \in Forms[g] : \E v \in (IF TakesValue(form) THEN Values ELSE {"-"}) : SeqOpt(g, form, v)
        \/ EndSeq
        \/ \E kf \in Kinds : Declare(kf[1], kf[2])
        \/ KwTable

Spec == Init /\ [][Next]_vars
-----------------------------------------------------------------------------
\* C17: exactly one key per written option, holding the written value
OneKeyPerOption == cur # NoCur => /\ Len(cur.kv) = Len(decl)
                                  /\ \A i \in DOMAIN decl : cur.kv[i] = <<KeyOf(decl[i].form), Stored(decl[i].form, decl[i].v)>>
\* C17: options never leak: finished entities never change, a sequence ends with what was written for it
NoLeak == [][\A i \in DOMAIN ents : ents'[i] = ents[i]]_vars
\* C17 / C03: the sequence keyword mode is confined to the sequence statement
SeqModeLocal == \A i \in DOMAIN ents : ents[i].ok
\* C18: one entity per declaration, of the declared kind and form, in order
OneEntityExact == [][Len(ents') <= Len(ents) + 1]_vars

Emit == (WithHist /\ cur = NoCur) => PrintT(<<"BEH", ToJson([hist |-> hist, ents |-> ents])>>)
View == <<ents, cur, decl, seqmode>>
=============================================================================
