------------------------------ MODULE Clauses ------------------------------
(***************************************************************************)
(* Layer G / X of DESIGN.md for the dialect clauses written after the       *)
(* column list (dialects/*.py p_expression_* productions, tokens.py         *)
(* after_columns_tokens, output/table_data.py pre_load_mods).               *)
(*                                                                          *)
(*   Close(b)     expr RP: the column list of body b is complete; the lexer  *)
(*                switches to the after-columns keyword table                *)
(*   Clause(c)    one production per clause: it writes its key(s) into the   *)
(*                table dict and nothing else                                *)
(*   Present(m)   TableData.init / to_dict in output mode m: a key the mode's*)
(*                dataclass declares is a top-level field, any other key goes*)
(*                to table_properties                                        *)
(*                                                                          *)
(* Serves C11: ClauseOrthogonal (the body is untouched), ClausesCombine      *)
(* (every clause's keys are present with their own value, none overwritten), *)
(* ClauseMode, Placement.                                                    *)
(***************************************************************************)
EXTENDS Naturals, Sequences, FiniteSets, TLC, Json

CONSTANTS Clause_,     \* clause ids
          DialectOf,   \* [clause -> dialect]
          KeysOf,      \* [clause -> set of dict keys the clause writes]
          ModesOfKey,  \* [key -> set of output modes whose dataclass declares AND shows the key] (field metadata output_modes)
          DeclaredIn,  \* [key -> set of output modes whose dataclass declares the key, shown or not] (mixin fields, inherited classes)
          ShowModes,   \* output modes in which a table may be presented
          CommonKeys,  \* keys that are fields of every mode (partitioned_by, tablespace, comment, partition_by)
          FirstOnly,   \* clauses the dialect only admits directly after the column list (Oracle ORGANIZATION INDEX)
          Bodies,      \* body ids
          MaxClauses,
          Variant,     \* "shipped" | "overwrite" | "swallow"
          WithHist

VARIABLES phase,     \* "body" | "after" | "shown"
          body,      \* the body id, and whether it is still intact
          intact,
          applied,   \* Seq(clause)
          dict,      \* set of <<key, clause>>: the table dict entries written by clauses
          aftercols, \* lexer.after_columns
          view,      \* [top |-> set of <<key, clause>>, props |-> ...] for the mode shown
          hist
vars == <<phase, body, intact, applied, dict, aftercols, view, hist>>
Range(s) == {s[i] : i \in DOMAIN s}
NoView == [mode |-> "none", top |-> {}, props |-> {}]

Init == /\ phase = "body" /\ body = "none" /\ intact = TRUE /\ applied = <<>> /\ dict = {} /\ aftercols = FALSE
        /\ view = NoView /\ hist = <<>>
Log(a) == hist' = IF WithHist THEN Append(hist, a) ELSE hist

Close(b) == /\ phase = "body" /\ phase' = "after" /\ body' = b /\ aftercols' = TRUE
            /\ Log([a |-> "close", b |-> b]) /\ UNCHANGED <<intact, applied, dict, view>>

Compatible(c) == /\ c \notin Range(applied)
                 /\ c \in FirstOnly => applied = <<>>
                 /\ \A d \in Range(applied) : DialectOf[d] = DialectOf[c] /\ KeysOf[d] \cap KeysOf[c] = {}

Clause(c) ==
    /\ phase = "after" /\ Len(applied) < MaxClauses /\ Compatible(c)
    /\ applied' = Append(applied, c)
    /\ dict' = IF Variant = "overwrite" /\ applied # <<>>
               THEN {e \in dict : e[2] # applied[Len(applied)]} \cup {<<k, c>> : k \in KeysOf[c]}   \* the previous clause's entry is replaced
               ELSE dict \cup {<<k, c>> : k \in KeysOf[c]}
    /\ intact' = IF Variant = "swallow" /\ applied = <<>> /\ body = "last_default" THEN FALSE ELSE intact
    /\ Log([a |-> "clause", c |-> c])
    /\ UNCHANGED <<phase, body, aftercols, view>>

\* TableData.pre_load_mods + BaseData.filter_out_output for one key in output mode m
Place(k, m) == IF k \in CommonKeys THEN "top"
               ELSE IF m = "sql" THEN "props"                       \* BaseData declares no dialect field
               ELSE IF m \in ModesOfKey[k] THEN "top"               \* declared and shown
               ELSE IF m \in DeclaredIn[k] THEN "hidden"            \* declared (mixin / inherited class) but filtered out by output_modes
               ELSE "props"                                         \* not a field of this mode's class

Present(m) ==
    /\ phase = "after" /\ phase' = "shown"
    /\ view' = [mode |-> m, top |-> {e \in dict : Place(e[1], m) = "top"}, props |-> {e \in dict : Place(e[1], m) = "props"}]
    /\ Log([a |-> "present", m |-> m])
    /\ UNCHANGED <<body, intact, applied, dict, aftercols>>

Modes == ShowModes \cup {DialectOf[c] : c \in Range(applied)}
Next == \/ \E b \in Bodies : Close(b)
        \/ \E c \in Clause_ : Clause(c)
        \/ \E m \in Modes : Present(m)
Spec == Init /\ [][Next]_vars
-----------------------------------------------------------------------------
ClauseOrthogonal == intact
ClausesCombine == \A c \in Range(applied) : \A k \in KeysOf[c] : <<k, c>> \in dict
NoForeignKeys == \A e \in dict : e[2] \in Range(applied) /\ e[1] \in KeysOf[e[2]]
ClauseMode == (phase = "after" \/ phase = "shown") => aftercols
Placement == phase = "shown" =>
               /\ view.top \cap view.props = {} /\ view.top \cup view.props \subseteq dict
               /\ view.mode = "sql" => (\A e \in view.top : e[1] \in CommonKeys) /\ view.top \cup view.props = dict
\* C10: a dialect key is at top level only in the modes documented for it, and in its owning mode it IS at top level or in
\* table_properties (never lost)
ModeFields == phase = "shown" =>
               /\ \A e \in view.top : e[1] \in CommonKeys \/ view.mode \in ModesOfKey[e[1]]
               /\ \A e \in dict : view.mode = DialectOf[e[2]] => e \in view.top \cup view.props
Emit == (WithHist /\ phase = "shown") =>
          PrintT(<<"BEH", ToJson([body |-> body, clauses |-> applied, mode |-> view.mode,
                                  top |-> {e[1] : e \in view.top}, props |-> {e[1] : e \in view.props}])>>)
View == <<phase, body, intact, applied, dict, aftercols, view>>
=============================================================================
