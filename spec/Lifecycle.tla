------------------------------ MODULE Lifecycle ------------------------------
(***************************************************************************)
(* Layer P of DESIGN.md: the life cycle of DDLParser objects inside one    *)
(* process.  One action per critical section of Parser.__init__ / run /    *)
(* parse_statement (simple_ddl_parser/parser.py):                          *)
(*                                                                         *)
(*   BuildLexer(o)   self.lexer = lex.lex(object=self)  -- also rebinds    *)
(*                   the PLY module global ply.lex.lexer                   *)
(*   BuildParser(o)  self.yacc = yacc.yacc(module=self) -- also rebinds    *)
(*                   the PLY module global ply.yacc.parse                  *)
(*   StartRun(o,a)   prologue of parse_data: what is (not) re-initialised  *)
(*   ParseStmt(o)    set_default_flags_in_lexer + parse_statement          *)
(*   FinishRun(o)    Output(...).format(), the list handed to the caller   *)
(*                                                                         *)
(* Binding = "perobject", ResetSet = Accs, Registry = "perrun" is the      *)
(* contract (and the repaired code); Binding = "global" / ResetSet = {}    *)
(* are the two shipped defects, Registry = "shared" a seeded one; all are  *)
(* kept as named configurations (negative controls).                      *)
(* Serves C14 (Repeatable, NoAliasing) and C15 (Isolation).                *)
(***************************************************************************)
EXTENDS Naturals, Sequences, FiniteSets, TLC, Json

CONSTANTS Obj,          \* parser objects (strings)
          NStmt,        \* statements in each object's script (>= 1)
          MaxRuns,      \* run() calls per object
          Args,         \* abstract run() argument tuples
          SilentObjs,   \* objects constructed with silent=True (the others raise on unparseable input)
          BadLast,      \* objects whose LAST statement is unparseable
          ForeignAlter, \* objects whose last statement is an ALTER of a table defined only in Target(o)'s script
          Binding,      \* "perobject" | "global"
          Registry,     \* "perrun" | "shared": lifetime of the (schema, table) -> table registry of Output
          ResetSet,     \* which per-run accumulators parse_data re-initialises (subset of Accs)
          Leaves,       \* which accumulators each object's script leaves non-empty when a run ends
          Granularity,  \* "stmt": any interleaving; "call": constructor and run() are atomic
          WithHist      \* BOOLEAN: carry the action history (generation configs only)

None == "none"

(* Per-run state of Parser: the reported comments list, the stack of open block comments, the       *)
(* pending (unterminated) statement, the inside-a-block-comment flag, the pending SET line.          *)
Accs == {"comments", "block_comments", "statement", "multi_line_comment", "set_line"}
ResetPerRun == "comments" \in ResetSet

VARIABLES pc,        \* [Obj -> {"new","lexed","built","running"}]
          sidx,      \* [Obj -> 0..NStmt]   statements parsed in the current run
          nruns,     \* [Obj -> 0..MaxRuns]
          gLexer,    \* owner of ply.lex.lexer   (Obj or None)
          gParse,    \* owner of ply.yacc.parse  (Obj or None)
          gReg,      \* objects whose tables sit in a registry that outlives a run (only if Registry = "shared")
          hasFlags,  \* [Obj -> BOOLEAN]  o's Lexer object carries the mode-flag attributes
          gen,       \* [Obj -> Nat]  identity of the list object currently bound to o.comments
          listLen,   \* [Obj -> [0..MaxRuns -> Nat]]  length of each list object ever allocated by o
          cur,       \* [Obj -> Seq(stmt record)]  per-statement outcome of the current run
          curArgs,   \* [Obj -> Args \cup {None}]
          dirty,     \* [Obj -> SUBSET Accs]  accumulators left non-empty by the object's previous run
          carried,   \* [Obj -> SUBSET Accs]  leftovers the current run started with
          res,       \* [Obj -> Seq(result)]  results handed to the caller, in call order
          hist       \* Seq([a, o, arg])  (only when WithHist)

vars == <<pc, sidx, nruns, gLexer, gParse, gReg, hasFlags, gen, listLen, cur, curArgs, dirty, carried, res, hist>>

Log(a, o, arg) == hist' = IF WithHist THEN Append(hist, [a |-> a, o |-> o, arg |-> arg]) ELSE hist

Init ==
    /\ pc = [o \in Obj |-> "new"]
    /\ sidx = [o \in Obj |-> 0]
    /\ nruns = [o \in Obj |-> 0]
    /\ gLexer = None
    /\ gParse = None
    /\ gReg = {}
    /\ hasFlags = [o \in Obj |-> FALSE]
    /\ gen = [o \in Obj |-> 0]
    /\ listLen = [o \in Obj |-> [g \in 0..MaxRuns |-> 0]]
    /\ cur = [o \in Obj |-> <<>>]
    /\ curArgs = [o \in Obj |-> None]
    /\ dirty = [o \in Obj |-> {}]
    /\ carried = [o \in Obj |-> {}]
    /\ res = [o \in Obj |-> <<>>]
    /\ hist = <<>>

(* An object in the middle of its constructor or of run(). *)
InFlight(o) == pc[o] \in {"lexed", "running"}
MayMove(o) == Granularity = "stmt" \/ \A p \in Obj \ {o} : ~InFlight(p)

BuildLexer(o) ==
    /\ pc[o] = "new" /\ MayMove(o)
    /\ pc' = [pc EXCEPT ![o] = "lexed"]
    /\ gLexer' = o                               \* lex.lex() rebinds the module global
    /\ hasFlags' = [hasFlags EXCEPT ![o] = FALSE] \* a fresh Lexer has no flag attributes yet
    /\ Log("BuildLexer", o, None)
    /\ UNCHANGED <<sidx, nruns, gParse, gReg, gen, listLen, cur, curArgs, dirty, carried, res>>

BuildParser(o) ==
    /\ pc[o] = "lexed" /\ MayMove(o)
    /\ pc' = [pc EXCEPT ![o] = "built"]
    /\ gParse' = o                               \* yacc.yacc() rebinds ply.yacc.parse
    /\ Log("BuildParser", o, None)
    /\ UNCHANGED <<sidx, nruns, gLexer, gReg, hasFlags, gen, listLen, cur, curArgs, dirty, carried, res>>

StartRun(o, a) ==
    /\ pc[o] = "built" /\ nruns[o] < MaxRuns /\ MayMove(o)
    /\ pc' = [pc EXCEPT ![o] = "running"]
    /\ sidx' = [sidx EXCEPT ![o] = 0]
    /\ cur' = [cur EXCEPT ![o] = <<>>]
    /\ curArgs' = [curArgs EXCEPT ![o] = a]
       \* parse_data: with ResetPerRun a new comments list is bound, otherwise the list
       \* created by __init__ (gen 0) keeps accumulating
    /\ gen' = [gen EXCEPT ![o] = IF ResetPerRun THEN nruns[o] ELSE 0]
    /\ listLen' = IF ResetPerRun THEN [listLen EXCEPT ![o][nruns[o]] = 0] ELSE listLen
       \* process_line calls set_default_flags_in_lexer on o's OWN lexer before each statement
    /\ hasFlags' = [hasFlags EXCEPT ![o] = TRUE]
    /\ carried' = [carried EXCEPT ![o] = dirty[o] \ ResetSet]
    /\ Log("StartRun", o, a)
    /\ UNCHANGED <<nruns, gLexer, gParse, gReg, dirty, res>>

LexerUsed(o) == IF Binding = "global" THEN gLexer ELSE o
ParserUsed(o) == IF Binding = "global" THEN gParse ELSE o

(* The table of another object that o's foreign ALTER names. *)
Target(o) == IF o = "a" THEN "b" ELSE "a"

ParseStmt(o) ==
    /\ pc[o] = "running" /\ sidx[o] < NStmt /\ MayMove(o)
    /\ LET L == LexerUsed(o)
           P == ParserUsed(o)
           crash == ~hasFlags[L]       \* AttributeError: 'Lexer' object has no attribute 'is_table'
           bad == o \in BadLast /\ sidx[o] = NStmt - 1
           raises == bad /\ P \notin SilentObjs     \* p_error consults the silent flag of the parser's module
           rec == [lexer |-> IF crash THEN "crash" ELSE L, parser |-> P,
                   out |-> IF crash \/ raises THEN "raised" ELSE IF bad THEN "dropped" ELSE "entity"]
       IN  IF crash \/ raises
           THEN /\ res' = [res EXCEPT ![o] = Append(@, [stmts |-> Append(cur[o], rec), list |-> gen[o],
                                                        args |-> curArgs[o], carried |-> carried[o],
                                                        raised |-> IF crash THEN "AttributeError" ELSE "DDLParserError"])]
                /\ pc' = [pc EXCEPT ![o] = "built"]
                /\ nruns' = [nruns EXCEPT ![o] = @ + 1]
                /\ dirty' = [dirty EXCEPT ![o] = Leaves \cup {"statement"}]   \* the aborted statement stays pending
                /\ UNCHANGED <<sidx, cur, listLen>>
           ELSE /\ cur' = [cur EXCEPT ![o] = Append(@, rec)]
                /\ sidx' = [sidx EXCEPT ![o] = @ + 1]
                   \* each statement line carries one trailing comment: appended to o.comments
                /\ listLen' = [listLen EXCEPT ![o][gen[o]] = @ + 1]
                /\ UNCHANGED <<res, pc, nruns, dirty>>
    /\ Log("ParseStmt", o, None)
    /\ UNCHANGED <<gLexer, gParse, gReg, hasFlags, gen, curArgs, carried>>

FinishRun(o) ==
    /\ pc[o] = "running" /\ sidx[o] = NStmt /\ MayMove(o)
    /\ LET known == IF Registry = "shared" THEN gReg \cup {o} ELSE {o}
           unknown == o \in ForeignAlter /\ Target(o) \notin known   \* ValueError: table does not exist
       IN  res' = [res EXCEPT ![o] = Append(@, [stmts |-> cur[o], list |-> gen[o], args |-> curArgs[o],
                                                carried |-> carried[o],
                                                raised |-> IF unknown THEN "ValueError" ELSE "no"])]
    /\ gReg' = IF Registry = "shared" THEN gReg \cup {o} ELSE gReg
    /\ pc' = [pc EXCEPT ![o] = "built"]
    /\ nruns' = [nruns EXCEPT ![o] = @ + 1]
    /\ dirty' = [dirty EXCEPT ![o] = Leaves]
    /\ Log("FinishRun", o, None)
    /\ UNCHANGED <<sidx, gLexer, gParse, hasFlags, gen, listLen, cur, curArgs, carried>>

Next == \E o \in Obj :
           \/ BuildLexer(o) \/ BuildParser(o) \/ ParseStmt(o) \/ FinishRun(o)
           \/ \E a \in Args : StartRun(o, a)

Spec == Init /\ [][Next]_vars

-----------------------------------------------------------------------------
(* What the caller holding result i of object o sees NOW (the comments list  *)
(* is returned by reference).                                                *)
Observed(o, i) == [stmts |-> res[o][i].stmts, carried |-> res[o][i].carried,
                   ncomments |-> listLen[o][res[o][i].list],
                   raised |-> res[o][i].raised]

(* What o returns when it is the only parser in the process.                 *)
SoloRaises(o) == IF o \in BadLast /\ o \notin SilentObjs THEN "DDLParserError"
                 ELSE IF o \in ForeignAlter THEN "ValueError" ELSE "no"
SoloStmt(o, k) == [lexer |-> o, parser |-> o,
                   out |-> IF o \in BadLast /\ k = NStmt
                           THEN (IF o \in SilentObjs THEN "dropped" ELSE "raised") ELSE "entity"]
Solo(o) == [stmts |-> [k \in 1..NStmt |-> SoloStmt(o, k)],
            carried |-> {}, ncomments |-> NStmt, raised |-> SoloRaises(o)]

TypeOK ==
    /\ pc \in [Obj -> {"new", "lexed", "built", "running"}]
    /\ sidx \in [Obj -> 0..NStmt]
    /\ nruns \in [Obj -> 0..MaxRuns]
    /\ gLexer \in Obj \cup {None} /\ gParse \in Obj \cup {None}

\* C15: every statement of every run was lexed and parsed by the object's own machinery
Isolation == \A o \in Obj : \A i \in DOMAIN res[o] :
                 /\ res[o][i].raised = Solo(o).raised
                 /\ res[o][i].stmts = Solo(o).stmts

\* C14: every run, whatever preceded it, returns what a fresh object returns
Repeatable == \A o \in Obj : \A i \in DOMAIN res[o] :
                 /\ res[o][i].carried = {}
                 /\ res[o][i].raised = "no" => Observed(o, i).ncomments = Solo(o).ncomments

\* C14: a result already handed out never changes afterwards
NoAliasing == [][\A o \in Obj : \A i \in DOMAIN res[o] : Observed(o, i)' = Observed(o, i)]_vars

\* results are only ever appended
AppendOnly == [][\A o \in Obj : Len(res'[o]) >= Len(res[o]) /\ SubSeq(res'[o], 1, Len(res[o])) = res[o]]_vars

Done == \A o \in Obj : pc[o] = "built" /\ nruns[o] = MaxRuns

\* generation: print every maximal behaviour with the observable outcome per object
Emit == (WithHist /\ Done) =>
          PrintT(<<"BEH", ToJson([hist |-> hist,
                                  obs |-> [o \in Obj |-> [i \in DOMAIN res[o] |-> Observed(o, i)]]])>>)

View == <<pc, sidx, nruns, gLexer, gParse, gReg, hasFlags, gen, listLen, cur, curArgs, dirty, carried, res>>
=============================================================================
