----------------------------- MODULE ParseTables -----------------------------
(***************************************************************************)
(* Layer P, cache part (C20): which LALR tables a DDLParser runs with,     *)
(* as a function of the state of the cached table file                     *)
(* simple_ddl_parser/parsetab.py and of the interpreter's module cache.    *)
(*                                                                         *)
(* Transcribes ply.yacc.yacc() as called by Parser.__init__                *)
(* (yacc.yacc(module=self, debug=False)):                                  *)
(*   read_table(tabmodule)  imports simple_ddl_parser.parsetab -- the      *)
(*       import is cached in sys.modules for the life of the process; a    *)
(*       missing file raises ImportError (nothing cached); an older        *)
(*       _tabversion raises VersionError;                                  *)
(*   if read_signature == signature: bind and use the cached tables        *)
(*   else: build the grammar, generate the tables, write the file.         *)
(* Environment: faults on the file (delete / stale signature / older       *)
(* table version) and process restarts.                                    *)
(***************************************************************************)
EXTENDS Naturals, Sequences, TLC, Json

CONSTANTS MaxFaults, MaxBuilds, MaxProcs,
          TrustSignature,   \* TRUE: compare signatures (shipped); FALSE: optimize mode, use whatever was read
          CanRegenerate,    \* TRUE: the declared grammar can be (re)built at run time
          WithHist

FileStates == {"valid", "missing", "stale", "oldver"}

VARIABLES file,      \* state of parsetab.py on disk
          imported,  \* what this process has cached in sys.modules: "none" or a FileStates value
          tables,    \* Seq of the tables each constructed parser runs with: "declared" | "foreign" | "error"
          nf, nb, np, hist

vars == <<file, imported, tables, nf, nb, np, hist>>

Log(a, k) == hist' = IF WithHist THEN Append(hist, [a |-> a, k |-> k]) ELSE hist

Init == /\ file = "valid" /\ imported = "none" /\ tables = <<>>
        /\ nf = 0 /\ nb = 0 /\ np = 1 /\ hist = <<>>

Fault(k) == /\ nf < MaxFaults /\ k # "valid" /\ k # file
            /\ file' = k /\ nf' = nf + 1
            /\ Log("Fault", k)
            /\ UNCHANGED <<imported, tables, nb, np>>

NewProcess == /\ np < MaxProcs /\ nb > 0
              /\ imported' = "none" /\ np' = np + 1
              /\ Log("NewProcess", "-")
              /\ UNCHANGED <<file, tables, nf, nb>>

(* What read_table sees: the module cached by this process, else the file. *)
Seen == IF imported # "none" THEN imported ELSE file

Build ==
    /\ nb < MaxBuilds
    /\ LET seen == Seen
           usable == seen \in {"valid", "stale"}            \* importable and current table version
           accept == usable /\ (seen = "valid" \/ ~TrustSignature)
       IN  /\ imported' = IF imported = "none" /\ seen # "missing" THEN seen ELSE imported
           /\ IF accept
              THEN /\ tables' = Append(tables, IF seen = "valid" THEN "declared" ELSE "foreign")
                   /\ file' = file
              ELSE IF CanRegenerate
                   THEN /\ tables' = Append(tables, "declared")   \* generated from the declared grammar
                        /\ file' = "valid"                        \* write_tables=True rewrites the cache
                   ELSE /\ tables' = Append(tables, "error")      \* YaccError: Unable to build parser
                        /\ file' = file
    /\ nb' = nb + 1
    /\ Log("Build", "-")
    /\ UNCHANGED <<nf, np>>

Next == Build \/ NewProcess \/ \E k \in FileStates : Fault(k)
Spec == Init /\ [][Next]_vars

-----------------------------------------------------------------------------
\* C20: whatever the cache state, every parser runs with the tables of the declared grammar
TablesDeclared == \A i \in DOMAIN tables : tables[i] = "declared"

\* the first build of a process leaves a valid cache behind (internal: the property does not demand the
\* rewrite; a later build of the same process trusts the module it imported and does not look at the file)
CacheHeals == [][(nb' = nb + 1 /\ imported = "none") => file' = "valid"]_vars

TypeOK == file \in FileStates /\ imported \in FileStates \cup {"none"}

Done == nb = MaxBuilds
Emit == (WithHist /\ Done) => PrintT(<<"BEH", ToJson([hist |-> hist, tables |-> tables, file |-> file])>>)
=============================================================================
