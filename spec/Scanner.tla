------------------------------ MODULE Scanner ------------------------------
(***************************************************************************)
(* Layer S of DESIGN.md: the character-class scanner a statement's text is  *)
(* MEANT to go through (quote-aware tokenisation), against which the        *)
(* regular-expression pre-processor of parser.py (pre_process_data,         *)
(* parse_data's line splitter) and the lexer's case handling are judged.    *)
(* The pre-processor itself is regex heuristics and is not transcribed      *)
(* character by character; the places where it is known to depart are named *)
(* deviations (Dev...) detected from the SOURCE layout / literal alone.     *)
(*                                                                          *)
(* Layout mode (C05): a statement is a skeleton - a sequence of token kinds *)
(* - and a LAYOUT assigns a gap class to every token boundary and a letter  *)
(* case to every keyword:                                                    *)
(*   Place(g, c)   write token i in case c followed by gap g                 *)
(* Literal mode (C07): the content of one quoted literal is a sequence of    *)
(* character classes:                                                        *)
(*   Char(c)       append one character of class c to the literal           *)
(*                                                                          *)
(* Invariants: GapIrrelevant / CaseBlind (the scanned token sequence is the  *)
(* skeleton, whatever the layout), LiteralVerbatim (the literal is exactly   *)
(* the characters written), DelimitersKept.                                  *)
(***************************************************************************)
EXTENDS Naturals, Sequences, FiniteSets, TLC, Json

CONSTANTS Skeleton,    \* Seq of token kinds: kw, kwdir (ASC/DESC), id, ty, lit, num, lp, rp, comma, dot, semi, eq, stmtword
          Gaps,        \* gap classes usable: sp (one space, canonical), sp3, tab, nl, crlf, blank (empty line), none
          Cases,       \* cases usable for keywords: upper, lower, mixed
          CaseBase,    \* the case every keyword has unless chosen otherwise (a choice differing from it counts as odd)
          MaxOdd,      \* how many non-canonical choices (gaps + cases) one layout may contain
          LitClasses,  \* character classes usable inside a literal
          MaxLit,      \* literal length (in classes)
          Mode,        \* "layout" | "literal"
          WithHist

VARIABLES i,        \* next token to place (layout mode)
          gaps,     \* Seq of gap classes chosen so far (gaps[k] follows token k)
          cases,    \* Seq of cases chosen so far ("-" for non-keywords)
          odd,      \* non-canonical choices so far
          toks,     \* what the intended scanner yields: Seq of <<kind, index>>
          lit,      \* literal mode: the classes written so far
          scanned   \* literal mode: what the intended scanner reports for the literal
vars == <<i, gaps, cases, odd, toks, lit, scanned>>

Punct == {"lp", "rp", "comma", "semi"}
NLGaps == {"nl", "crlf", "blank"}
IsKw(k) == k \in {"kw", "kwdir", "kwcs", "stmtword"}

Init == i = 1 /\ gaps = <<>> /\ cases = <<>> /\ odd = 0 /\ toks = <<>> /\ lit = <<>> /\ scanned = <<>>

\* the domain of C05: `none` only next to punctuation; no line break directly before a statement-level word that does not
\* start the statement; the statement terminator stays at the end of its line
GapOK(g, k) ==
    /\ g = "none" => (Skeleton[k] \in Punct \/ (k < Len(Skeleton) /\ Skeleton[k + 1] \in Punct))
    /\ (g \in NLGaps /\ k < Len(Skeleton)) => Skeleton[k + 1] # "stmtword"
    /\ k = Len(Skeleton) => g = "sp"
    /\ (k + 1 = Len(Skeleton) /\ Skeleton[k + 1] = "semi") => g \in {"sp", "none", "sp3"}

Place(g, c) ==
    /\ Mode = "layout" /\ i <= Len(Skeleton)
    /\ g \in Gaps /\ GapOK(g, i)
    /\ IF IsKw(Skeleton[i]) THEN c \in Cases ELSE c = "-"
    /\ LET o == (IF g # "sp" THEN 1 ELSE 0) + (IF c \notin {CaseBase, "-"} THEN 1 ELSE 0) IN
       /\ odd + o <= MaxOdd /\ odd' = odd + o
    /\ gaps' = Append(gaps, g) /\ cases' = Append(cases, c)
    /\ toks' = Append(toks, <<Skeleton[i], i>>)         \* the token, whatever its case and whatever surrounds it
    /\ i' = i + 1
    /\ UNCHANGED <<lit, scanned>>

Char(c) ==
    /\ Mode = "literal" /\ Len(lit) < MaxLit /\ c \in LitClasses
    /\ lit' = Append(lit, c)
    /\ scanned' = Append(scanned, c)                     \* inside quotes every character is copied verbatim
    /\ UNCHANGED <<i, gaps, cases, odd, toks>>

Next == (\E g \in Gaps, c \in Cases \cup {"-"} : Place(g, c)) \/ (\E c \in LitClasses : Char(c))
Spec == Init /\ [][Next]_vars
-----------------------------------------------------------------------------
Done == IF Mode = "layout" THEN i > Len(Skeleton) ELSE Len(lit) >= 1
\* C05
GapIrrelevant == toks = [k \in 1..Len(toks) |-> <<Skeleton[k], k>>]
CaseBlind == \A k \in DOMAIN toks : toks[k][1] = Skeleton[k]
\* C07
LiteralVerbatim == scanned = lit

(* ---- named deviations of the shipped pre-processor / lexer, detected from the source alone ---- *)
\* a line break directly before a quoted literal is not seen as a line end by the quote-aware split expression
DevNLBeforeLiteral == \E k \in DOMAIN gaps : gaps[k] \in NLGaps /\ k < Len(Skeleton) /\ Skeleton[k + 1] = "lit"
\* ASC / DESC are compared with their upper-case spelling
DevDirCase == \E k \in DOMAIN cases : Skeleton[k] = "kwdir" /\ cases[k] # "upper"
\* CHARSET in DEFAULT CHARSET= is looked up case-sensitively when mixed
DevCharsetCase == \E k \in DOMAIN cases : Skeleton[k] = "kwcs" /\ cases[k] = "mixed"
\* (DevDirCase and DevCharsetCase were deviations of the pinned tree; both were repaired by fix: commits and are no longer
\*  part of the as-built deviation set: a lower-case asc / mixed-case Charset layout falls under the bare invariants again)
LayoutDev == (IF DevNLBeforeLiteral THEN {"nl_before_literal"} ELSE {})

Has(c) == \E k \in DOMAIN lit : lit[k] = c
Pair(a, b) == \E k \in 1..(Len(lit) - 1) : lit[k] = a /\ lit[k + 1] = b
WordEnd == {"letter", "digit", "kw", "colon_word", "punct", "nonascii"}
\* (semicolons, comment-line markers --, #, double quotes and doubled quotes inside a literal are copied verbatim by the pinned tree:
\*  no deviation is recorded for them, so any mismatch on such a literal is a violation)
LitDev == (IF Has("comma") THEN {"lit_comma"} ELSE {}) \cup (IF Has("lpar") \/ Has("rpar") THEN {"lit_paren"} ELSE {})
          \cup (IF \E w \in WordEnd : Pair(w, "eq") THEN {"lit_word_eq"} ELSE {}) \cup (IF Has("nonascii") THEN {"lit_nonascii"} ELSE {})
          \cup (IF Has("bslash") THEN {"lit_bslash"} ELSE {}) \cup (IF Has("tab") THEN {"lit_tab"} ELSE {})
          \cup (IF Has("nl") THEN {"lit_nl"} ELSE {}) \cup (IF Has("copen") \/ Has("cclose") THEN {"lit_comment_marker"} ELSE {})

Emit == (WithHist /\ Done) =>
          PrintT(<<"BEH", ToJson(IF Mode = "layout" THEN [gaps |-> gaps, cases |-> cases, dev |-> LayoutDev]
                                 ELSE [lit |-> lit, dev |-> LitDev])>>)
View == vars
=============================================================================
