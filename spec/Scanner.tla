------------------------------ MODULE Scanner ------------------------------
(***************************************************************************)
(* Layer S of DESIGN.md: the character-class scanner a statement's text is  *)
(* MEANT to go through (quote-aware tokenisation), against which the        *)
(* regular-expression pre-processor of parser.py (pre_process_data,         *)
(* parse_data's line splitter) and the lexer's case handling are judged.    *)
(* The pre-processor itself is regex heuristics and is not transcribed      *)
(* character by character; the places where it is known to depart are named *)
(* deviations (Dev...) detected from the SOURCE layout / literal alone.     *)
(*                                                                          *)
(* Layout mode (C05): a statement is a skeleton - a sequence of token kinds *)
(* - and a LAYOUT assigns a gap class to every token boundary and a letter  *)
(* case to every keyword:                                                    *)
(*   Odd(k,w,v)    make one non-canonical choice: gap v after token k, or    *)
(*                 case v for keyword k (a layout = its odd choices)         *)
(* Literal mode (C07): the content of one quoted literal is a sequence of    *)
(* character classes:                                                        *)
(*   Char(c)       append one character of class c to the literal           *)
(*                                                                          *)
(* Invariants: GapIrrelevant / CaseBlind (the scanned token sequence is the  *)
(* skeleton, whatever the layout), LiteralVerbatim (the literal is exactly   *)
(* the characters written), DelimitersKept.                                  *)
(***************************************************************************)
EXTENDS Naturals, Sequences, FiniteSets, TLC, Json

CONSTANTS Skeletons,   \* Seq of skeletons; a skeleton is a Seq of token kinds: kw, kwdir (ASC/DESC), kwcs, id, ty, lit, num, lp, rp, comma, dot,
                       \* semi, eq, stmtword (a statement-level word not starting a statement), stmtend (a token ending a statement inside a script)
          Gaps,        \* gap classes usable: sp (one space, canonical), sp3, tab, nl, crlf, blank (empty line), none
          Cases,       \* cases usable for keywords: upper, lower, mixed
          CaseBase,    \* the case every keyword has unless chosen otherwise (a choice differing from it counts as odd)
          MaxOdd,      \* how many non-canonical choices (gaps + cases) one layout may contain
          LitClasses,  \* character classes usable inside a literal
          MaxLit,      \* literal length (in classes)
          Mode,        \* "layout" | "literal"
          WithHist

VARIABLES sk,       \* which skeleton is being laid out
          odds,     \* the non-canonical choices of the layout, in source order: Seq([pos, what ("case" | "gap"), val])
          lit,      \* literal mode: the classes written so far
          scanned   \* literal mode: what the intended scanner reports for the literal
vars == <<sk, odds, lit, scanned>>
Skeleton == Skeletons[sk]

Punct == {"lp", "rp", "comma", "semi"}
NLGaps == {"nl", "crlf", "blank"}
\* keyword kinds on which the pinned tree is recorded to be case-sensitive (known findings): the kind is the deviation tag
DevCaseKinds == {"kwdev_dir", "kwdev_autoinc", "kwdev_clustered", "kwdev_key"}
IsKw(k) == k \in {"kw", "kwdir", "kwcs", "stmtword"} \cup DevCaseKinds

Init == sk \in (IF Skeletons = <<>> THEN {0} ELSE DOMAIN Skeletons) /\ odds = <<>> /\ lit = <<>> /\ scanned = <<>>

\* the layout the choices stand for: every boundary has the canonical gap, every keyword the base case, except where chosen
Chosen(k, what) == {i \in DOMAIN odds : odds[i].pos = k /\ odds[i].what = what}
gaps == [k \in DOMAIN Skeleton |-> IF Chosen(k, "gap") = {} THEN "sp" ELSE odds[CHOOSE i \in Chosen(k, "gap") : TRUE].val]
cases == [k \in DOMAIN Skeleton |-> IF ~IsKw(Skeleton[k]) THEN "-"
                                     ELSE IF Chosen(k, "case") = {} THEN CaseBase ELSE odds[CHOOSE i \in Chosen(k, "case") : TRUE].val]
\* what the intended (quote-aware) scanner yields for that layout: the tokens, whatever their case and whatever separates them
toks == [k \in DOMAIN Skeleton |-> <<Skeleton[k], k>>]

\* the domain of C05: `none` only next to punctuation; no line break directly before a statement-level word that does not
\* start the statement; the statement terminator stays at the end of its line
GapOK(g, k) ==
    /\ g = "none" => (Skeleton[k] \in Punct \/ (k < Len(Skeleton) /\ Skeleton[k + 1] \in Punct))
    /\ (g \in NLGaps /\ k < Len(Skeleton)) => Skeleton[k + 1] # "stmtword"
    /\ k < Len(Skeleton)
    /\ Skeleton[k] # "stmtend"                              \* the line break after a statement's `;` is not a gap between its tokens
    /\ (k + 1 = Len(Skeleton) /\ Skeleton[k + 1] = "semi") => g \in {"none", "sp3"}

InOrder(k, what) == IF Len(odds) = 0 THEN TRUE
                    ELSE LET l == odds[Len(odds)] IN l.pos < k \/ (l.pos = k /\ l.what = "case" /\ what = "gap")

Odd(k, what, v) ==
    /\ Mode = "layout" /\ Len(odds) < MaxOdd /\ k \in DOMAIN Skeleton /\ InOrder(k, what)
    /\ IF what = "gap" THEN v \in Gaps \ {"sp"} /\ GapOK(v, k)
       ELSE IsKw(Skeleton[k]) /\ v \in Cases \ {CaseBase}
    /\ odds' = Append(odds, [pos |-> k, what |-> what, val |-> v])
    /\ UNCHANGED <<sk, lit, scanned>>

Char(c) ==
    /\ Mode = "literal" /\ Len(lit) < MaxLit /\ c \in LitClasses
    /\ lit' = Append(lit, c)
    /\ scanned' = Append(scanned, c)                     \* inside quotes every character is copied verbatim
    /\ UNCHANGED <<sk, odds>>

Next == (\E k \in 1..(IF Mode = "layout" THEN Len(Skeleton) ELSE 0), what \in {"case", "gap"}, v \in Gaps \cup Cases : Odd(k, what, v))
        \/ (\E c \in LitClasses : Char(c))
Spec == Init /\ [][Next]_vars
-----------------------------------------------------------------------------
Done == IF Mode = "layout" THEN TRUE ELSE Len(lit) >= 1
\* C05
GapIrrelevant == Mode = "layout" => toks = [k \in DOMAIN Skeleton |-> <<Skeleton[k], k>>]
CaseBlind == Mode = "layout" => \A k \in DOMAIN Skeleton : toks[k][1] = Skeleton[k]
\* C07
LiteralVerbatim == scanned = lit

(* ---- named deviations of the shipped pre-processor / lexer, detected from the source alone ---- *)
\* a line break directly before a quoted literal is not seen as a line end by the quote-aware split expression
DevNLBeforeLiteral == \E k \in DOMAIN gaps : gaps[k] \in NLGaps /\ k < Len(Skeleton) /\ Skeleton[k + 1] = "lit"
\* ASC / DESC are compared with their upper-case spelling
DevDirCase == \E k \in DOMAIN cases : Skeleton[k] = "kwdir" /\ cases[k] # "upper"
\* CHARSET in DEFAULT CHARSET= is looked up case-sensitively when mixed
DevCharsetCase == \E k \in DOMAIN cases : Skeleton[k] = "kwcs" /\ cases[k] = "mixed"
\* (DevDirCase and DevCharsetCase were deviations of the pinned tree; both were repaired by fix: commits and are no longer
\*  part of the as-built deviation set: a lower-case asc / mixed-case Charset layout falls under the bare invariants again)
LayoutDev == (IF DevNLBeforeLiteral THEN {"nl_before_literal"} ELSE {})
             \cup {Skeleton[k] : k \in {j \in DOMAIN cases : Skeleton[j] \in DevCaseKinds /\ cases[j] # CaseBase}}

Has(c) == \E k \in DOMAIN lit : lit[k] = c
Pair(a, b) == \E k \in 1..(Len(lit) - 1) : lit[k] = a /\ lit[k + 1] = b
\* Calibrated on the pinned tree over every class string of length <= 3 (and probes of length 4): a literal is rewritten exactly when
\*  - it contains an opening parenthesis, a non-ASCII character, a backslash, a tab, a line break or a block-comment marker, or
\*  - a word character is directly followed by `=`, or
\*  - a comma or a closing parenthesis is followed - after a possibly empty run of word characters - by something that is neither a
\*    word character nor a doubled quote (the look-ahead of pre_process_data protects `sep word* '` only).
\* Semicolons, --, #, double quotes, doubled quotes, keyword-shaped and statement-level words by themselves are copied verbatim.
WordCls == {"letter", "digit", "kw"}
WordEnd == {"letter", "digit", "kw", "colon_word", "punct", "stmtword"}
DevSep == \E k \in DOMAIN lit : /\ lit[k] \in {"comma", "rpar"}
                                 /\ \E j \in (k + 1)..Len(lit) : /\ lit[j] \notin WordCls \cup {"quote2"}
                                                                  /\ \A m \in (k + 1)..(j - 1) : lit[m] \in WordCls
LitDev == (IF DevSep THEN {"lit_sep"} ELSE {}) \cup (IF Has("lpar") THEN {"lit_lpar"} ELSE {})
          \cup (IF \E w \in WordEnd : Pair(w, "eq") THEN {"lit_word_eq"} ELSE {}) \cup (IF Has("nonascii") THEN {"lit_nonascii"} ELSE {})
          \cup (IF Has("bslash") THEN {"lit_bslash"} ELSE {}) \cup (IF Has("tab") THEN {"lit_tab"} ELSE {})
          \cup (IF Has("nl") THEN {"lit_nl"} ELSE {}) \cup (IF Has("copen") \/ Has("cclose") THEN {"lit_comment_marker"} ELSE {})

Emit == (WithHist /\ Done) =>
          PrintT(<<"BEH", ToJson(IF Mode = "layout" THEN [sk |-> sk, odds |-> odds, dev |-> LayoutDev]
                                 ELSE [lit |-> lit, dev |-> LitDev])>>)
View == vars
=============================================================================
