------------------------------- MODULE System -------------------------------
(***************************************************************************)
(* End-to-end composition of the layers at STATEMENT granularity: one       *)
(* DDLParser object, one script, run() called MaxRuns times.                *)
(*                                                                          *)
(*   write    the environment writes the script, one statement per step     *)
(*   parse    Parser.parse_data: every statement in source order; skip      *)
(*            words never reach the grammar (Assembler.tla), a SET becomes  *)
(*            a ddl property, a statement the grammar rejects is dropped    *)
(*            (silent) or raises DDLParserError at once (p_error), anything *)
(*            else is appended to the raw list (self.tables)                *)
(*   fold     Output.format -> Registry.tla: the raw list in order; a table *)
(*            is registered, an ALTER / CREATE INDEX is merged into its     *)
(*            registered target or raises ValueError (whatever `silent`)    *)
(*   present  flat list, or buckets by kind (group_by_type); the comments   *)
(*            entry last                                                    *)
(*   done / raised ; Rerun starts the next run() on the same object         *)
(*                                                                          *)
(* The stages are the mechanism; the contract is a function of the script   *)
(* and the flags alone (ExpExc / ExpFlat below).  The stage ORDER is what    *)
(* the composition adds to the layer specifications: a rejected statement   *)
(* anywhere in the script wins over an unknown ALTER target before it,      *)
(* because folding only starts after the whole script was parsed.           *)
(* Serves C03 (Independent / InOrder), C13 (GroupLossless), C14 (Repeat),   *)
(* C16 (Outcome under both settings of silent).                             *)
(***************************************************************************)
EXTENDS Naturals, Sequences, FiniteSets, TLC, Json

CONSTANTS Kinds,      \* statement kinds the script may contain (subset of AllKinds)
          MaxStmts,
          Silents,    \* subset of BOOLEAN
          Groups,     \* subset of BOOLEAN
          MaxRuns,
          Variant,    \* "shipped" | negative controls "fold_while_parsing", "group_drops_markerless", "rerun_accumulates", "silent_unknown_target", "set_swallows_next"
          WithHist

EntityKinds == {"table", "sequence", "type", "domain", "schema", "database", "tablespace"}
SkipKinds == {"go", "insert"}            \* removed by the skip-word filter: never reach the grammar
RejectedKinds == {"select", "view"}      \* reach the grammar and are rejected
TargetKinds == {"alter", "index"}        \* carry a target: the statement index of the table they name (0 = a table the script never creates)
AllKinds == EntityKinds \cup SkipKinds \cup RejectedKinds \cup TargetKinds \cup {"set", "comment"}

Stmt(k, t) == [k |-> k, tgt |-> t]
Choices == {Stmt(k, 0) : k \in Kinds \ TargetKinds} \cup {Stmt(k, t) : k \in Kinds \cap TargetKinds, t \in 0..MaxStmts}

VARIABLES script,     \* Seq(Stmt)
          pc, silent, group, runs,
          i,          \* parse stage: next statement
          raw,        \* self.tables: Seq([k, sid, tgt])
          ncomments,
          j,          \* fold stage: next raw item
          ents,       \* Seq([k, sid, merged])   merged = Seq of the sids of the ALTER / INDEX statements folded into a table
          result,     \* what run() returned: [flat |-> Seq(ent), comments |-> n]  or  [buckets |-> [bucket -> Seq(ent)], comments |-> n]
          exc,        \* "none" | "DDLParserError" | "ValueError"
          first,      \* outcome of the first run() (ghost, for Repeat)
          hist
vars == <<script, pc, silent, group, runs, i, raw, ncomments, j, ents, result, exc, first, hist>>

NoResult == [flat |-> <<>>, comments |-> 0, none |-> TRUE]

Init == /\ script = <<>> /\ pc = "write" /\ silent \in Silents /\ group \in Groups /\ runs = 0
        /\ i = 1 /\ raw = <<>> /\ ncomments = 0 /\ j = 1 /\ ents = <<>> /\ result = NoResult /\ exc = "none" /\ first = <<>> /\ hist = <<>>

Write(d) == /\ pc = "write" /\ Len(script) < MaxStmts
            /\ script' = Append(script, d)
            /\ UNCHANGED <<pc, silent, group, runs, i, raw, ncomments, j, ents, result, exc, first, hist>>

Begin == /\ pc = "write" /\ script # <<>>
         /\ pc' = "parse" /\ i' = 1 /\ raw' = <<>> /\ ncomments' = 0
         /\ UNCHANGED <<script, silent, group, runs, j, ents, result, exc, first, hist>>

(* ---- parse stage: one statement ---- *)
Registered(rw, upto, t) == \E q \in 1..upto : rw[q].k = "table" /\ rw[q].sid = t
ParseStep ==
    /\ pc = "parse"
    /\ IF i > Len(script)
       THEN /\ pc' = "fold" /\ j' = 1 /\ ents' = <<>>
            /\ UNCHANGED <<i, raw, ncomments, exc>>
       ELSE LET d == script[i] IN
            /\ i' = i + 1
            /\ ncomments' = IF d.k = "comment" THEN ncomments + 1 ELSE ncomments
            /\ IF d.k \in RejectedKinds /\ ~silent
               THEN exc' = "DDLParserError" /\ pc' = "raised" /\ UNCHANGED <<raw, j, ents>>
               ELSE IF Variant = "fold_while_parsing" /\ d.k \in TargetKinds /\ ~Registered(raw, Len(raw), d.tgt)
               THEN exc' = "ValueError" /\ pc' = "raised" /\ UNCHANGED <<raw, j, ents>>
               ELSE /\ raw' = IF d.k \in SkipKinds \cup RejectedKinds \cup {"comment"} THEN raw
                              ELSE IF Variant = "set_swallows_next" /\ i > 1 /\ script[i - 1].k = "set" /\ d.k \in EntityKinds THEN raw
                              ELSE Append(raw, [k |-> IF d.k = "set" THEN "ddl_property" ELSE d.k, sid |-> i, tgt |-> d.tgt])
                    /\ UNCHANGED <<pc, exc, j, ents>>
    /\ UNCHANGED <<script, silent, group, runs, result, first, hist>>

(* ---- fold stage: one raw item ---- *)
PosOf(es, t) == CHOOSE q \in DOMAIN es : es[q].k = "table" /\ es[q].sid = t
HasTable(es, t) == \E q \in DOMAIN es : es[q].k = "table" /\ es[q].sid = t
FoldStep ==
    /\ pc = "fold"
    /\ IF j > Len(raw)
       THEN pc' = "present" /\ UNCHANGED <<j, ents, exc>>
       ELSE LET r == raw[j] IN
            /\ j' = j + 1
            /\ IF r.k \in TargetKinds
               THEN IF HasTable(ents, r.tgt)
                    THEN /\ ents' = [ents EXCEPT ![PosOf(ents, r.tgt)].merged = Append(@, <<r.k, r.sid>>)]
                         /\ UNCHANGED <<pc, exc>>
                    ELSE IF Variant = "silent_unknown_target" /\ silent
                    THEN UNCHANGED <<ents, pc, exc>>
                    ELSE exc' = "ValueError" /\ pc' = "raised" /\ UNCHANGED ents
               ELSE /\ ents' = Append(ents, [k |-> r.k, sid |-> r.sid, merged |-> <<>>])
                    /\ UNCHANGED <<pc, exc>>
    /\ UNCHANGED <<script, silent, group, runs, i, raw, ncomments, result, first, hist>>

(* ---- present ---- *)
Bucket(k) == CASE k = "table" -> "tables" [] k = "sequence" -> "sequences" [] k = "type" -> "types" [] k = "domain" -> "domains"
               [] k = "schema" -> "schemas" [] k = "tablespace" -> "tablespaces" [] k = "database" -> "databases" [] k = "ddl_property" -> "ddl_properties"
AlwaysBuckets == {"tables", "types", "sequences", "domains", "schemas", "ddl_properties"}
GroupOf(es) == LET keep == IF Variant = "group_drops_markerless" THEN SelectSeq(es, LAMBDA e : e.k # "database") ELSE es
                   bs == AlwaysBuckets \cup {Bucket(keep[q].k) : q \in DOMAIN keep}
               IN  [b \in bs |-> SelectSeq(keep, LAMBDA e : Bucket(e.k) = b)]
Outcome(es, n) == IF group THEN [buckets |-> GroupOf(es), comments |-> n] ELSE [flat |-> es, comments |-> n]
Present ==
    /\ pc = "present"
    /\ result' = Outcome(ents, ncomments)
    /\ pc' = "done" /\ runs' = runs + 1
    /\ first' = IF runs = 0 THEN <<Outcome(ents, ncomments)>> ELSE first
    /\ hist' = IF WithHist THEN Append(hist, [run |-> runs + 1, exc |-> "none"]) ELSE hist
    /\ UNCHANGED <<script, silent, group, i, raw, ncomments, j, ents, exc>>

(* ---- the next run() of the same object: the per-run accumulators are re-initialised (fix 2a35936) ---- *)
Rerun ==
    /\ pc \in {"done", "raised"} /\ runs < MaxRuns
    /\ pc' = "parse" /\ i' = 1 /\ exc' = "none"
    /\ raw' = IF Variant = "rerun_accumulates" THEN raw ELSE <<>>
    /\ ncomments' = IF Variant = "rerun_accumulates" THEN ncomments ELSE 0
    /\ runs' = IF pc = "raised" THEN runs + 1 ELSE runs
    /\ first' = IF pc = "raised" /\ runs = 0 THEN <<[raised |-> exc]>> ELSE first
    /\ UNCHANGED <<script, silent, group, j, ents, result, hist>>

Next == \/ \E d \in Choices : Write(d)
        \/ Begin \/ ParseStep \/ FoldStep \/ Present \/ Rerun
Spec == Init /\ [][Next]_vars
-----------------------------------------------------------------------------
(* ---- the contract: a function of the script and the flags alone ---- *)
Idx == 1..Len(script)
Rejected(q) == script[q].k \in RejectedKinds
\* the target of an ALTER / CREATE INDEX is known iff an EARLIER statement of the script creates it
Known(q) == script[q].tgt \in 1..(q - 1) /\ script[script[q].tgt].k = "table"
UnknownTarget(q) == script[q].k \in TargetKinds /\ ~Known(q)
ExpExc == IF ~silent /\ \E q \in Idx : Rejected(q) THEN "DDLParserError"
          ELSE IF \E q \in Idx : UnknownTarget(q) THEN "ValueError" ELSE "none"
\* what statement q yields when it stands alone after the tables it names (C03: its outcome does not depend on its neighbours)
Yields(q) == script[q].k \in EntityKinds \cup {"set"}
MergedInto(q) == LET ix == SelectSeq([x \in Idx |-> x], LAMBDA x : script[x].k \in TargetKinds /\ script[x].tgt = q)
                 IN  [y \in DOMAIN ix |-> <<script[ix[y]].k, ix[y]>>]
Single(q) == [k |-> IF script[q].k = "set" THEN "ddl_property" ELSE script[q].k, sid |-> q,
              merged |-> IF script[q].k = "table" THEN MergedInto(q) ELSE <<>>]
ExpFlat == LET ix == SelectSeq([x \in Idx |-> x], Yields) IN [y \in DOMAIN ix |-> Single(ix[y])]
ExpComments == Cardinality({q \in Idx : script[q].k = "comment"})

\* C16 / C03: the outcome of run() is the contract's, under either setting of silent
OutcomeOK == /\ pc = "done" => /\ ExpExc = "none"
                               /\ result = Outcome(ExpFlat, ExpComments)
             /\ pc = "raised" => exc = ExpExc
\* C03: entities in statement order, each statement's entity what it yields alone
InOrder == (pc = "done" /\ ~group) =>
             \A a, b \in DOMAIN result.flat : a < b => result.flat[a].sid < result.flat[b].sid
\* C13: the buckets partition the flat list, order kept, the six standard buckets always present
GroupLossless == (pc = "done" /\ group) =>
    LET g == result.buckets IN
    /\ AlwaysBuckets \subseteq DOMAIN g
    /\ \A q \in DOMAIN ExpFlat : \E b \in DOMAIN g : \E y \in DOMAIN g[b] : g[b][y] = ExpFlat[q]
    /\ \A b \in DOMAIN g : \A y1, y2 \in DOMAIN g[b] : y1 < y2 => g[b][y1].sid < g[b][y2].sid
    /\ \A b \in DOMAIN g : \A y \in DOMAIN g[b] : Bucket(g[b][y].k) = b
\* C14: every run() of the same object returns what the first returned
Repeat == /\ (pc = "done" /\ runs >= 2) => first = <<result>>
          /\ (pc = "raised" /\ first # <<>> /\ runs >= 1) => first = <<[raised |-> exc]>>
\* C16: silent only removes the raising: when nothing is rejected the two settings agree (by construction of ExpExc / ExpFlat: both are independent of
\* `silent` unless a rejected statement exists) - stated so that TLC evaluates it
SilentOnlyDrops == (pc = "done" /\ ~silent) => \A q \in Idx : ~Rejected(q)

Complete == pc \in {"done", "raised"} /\ (runs + (IF pc = "raised" THEN 1 ELSE 0)) >= MaxRuns
Emit == (WithHist /\ Complete) =>
          PrintT(<<"BEH", ToJson([script |-> script, silent |-> silent, group |-> group, runs |-> MaxRuns, exc |-> ExpExc,
                                  flat |-> ExpFlat, comments |-> ExpComments])>>)
View == <<script, pc, silent, group, runs, i, raw, ncomments, j, ents, result, exc, first>>
=============================================================================
