------------------------------ MODULE Assembler ------------------------------
(***************************************************************************)
(* Layer L of DESIGN.md: the line assembler and comment scanner             *)
(* (simple_ddl_parser/parser.py parse_data / process_line / pre_process_line *)
(* / process_inline_comments / parse_set_statement /                         *)
(* check_new_statement_start / add_line_to_statement / process_statement),   *)
(* transcribed from DESIGN.md Appendix A: one action, Line(l), per source    *)
(* line, written over the FEATURES of the line the code tests.               *)
(*                                                                          *)
(* A line is [ind, code, cm]:                                                *)
(*   ind   it starts with white space                                        *)
(*   code  the code piece on it: NoCode or [sid, idx, n, k]  (piece idx of n *)
(*         of statement sid whose kind is k)                                 *)
(*   cm    the comment on it: NoCm or [style, cid, dash]  with style in      *)
(*         dash (-- text), hash (# text), blk1 (/* text */), open (/* text), *)
(*         mid (text), close (text */);  dash = the text contains "--"       *)
(* Text is never inspected: statements and comment items are sequences of    *)
(* piece ids, so "comment text inside an entity" is a cmt piece in a         *)
(* submitted statement.                                                      *)
(* Serves C03 (SubmittedExact, CleanBoundary, SkipIsNoOp), C08               *)
(* (NoCommentInCode, CommentsFromSource), C16 (what reaches the grammar).    *)
(***************************************************************************)
EXTENDS Naturals, Sequences, FiniteSets, TLC, Json

CONSTANTS StmtKinds,   \* statement descriptors [k, n] (kind, number of source lines) the script may contain
          MaxStmts,
          Variant,     \* "shipped" | defects kept as negative controls: "mlc_sticky", "dash_line_kept"
          CmStyles,    \* comment styles that may be inserted: subset of {"dash","hash","blk1","block2","block3","tdash","tblk1","topen"}
          MaxCm,       \* comments per script
          Indents,     \* subset of BOOLEAN: may comment lines be indented
          DashInText,  \* subset of BOOLEAN: may a block comment's text contain "--"
          TrailingNL,  \* BOOLEAN: the script ends with a line break (the splitter then yields a final empty line)
          WithHist

NoCode == [sid |-> 0, idx |-> 0, n |-> 0, k |-> "none"]
NoCm == [style |-> "none", cid |-> 0, dash |-> FALSE]

VARIABLES stmts,      \* the script's statements so far: Seq([k, n])
          pos,        \* <<statement index, next piece index>> in stmts: what the environment writes next
          blk,        \* the environment is inside a multi-line block comment: lines still to write (0 = not inside)
          ncm,        \* comments inserted so far
          lines,      \* the source so far (ghost; Seq of line records)
          \* ---- Parser attributes ----
          statement,  \* Seq(piece) or <<"None">>  (self.statement)
          set_line, set_was, mlc, nblock,
          comments,   \* Seq of comment-item pieces
          submitted,  \* Seq(Seq(piece)): what parse_statement received, in order
          nset,       \* SET statements emitted as ddl_properties
          ended,      \* the final (empty) line after a trailing line break has been processed
          hist
vars == <<stmts, pos, blk, ncm, lines, statement, set_line, set_was, mlc, nblock, comments, submitted, nset, ended, hist>>

None == <<>>          \* (Python None and the empty string are both falsy in every test the code makes)
Range(s) == {s[i] : i \in DOMAIN s}
CodeP(c) == <<"code", c.sid, c.idx>>
CmtP(cid, part) == <<"cmt", cid, part>>

(* ---- features of a code piece ---- *)
\* "tablens": a CREATE TABLE written WITHOUT the terminating `;` (ended only by the next CREATE / ALTER / DROP line or the end of input)
\* "serde": a Hive table whose SERDEPROPERTIES hold an "input.regex" (rewritten by the pre-processor before the lines are split);
\* "alter_rn": ALTER TABLE .. RENAME COLUMN with double-quoted names (a second ALTER kind, so that two ALTERs can follow each other)
StartsNew(c) == c # NoCode /\ ((c.idx = 1 /\ c.k \in {"table", "tablens", "serde", "seq", "view", "ext", "set", "drop", "alter", "alter_rn"}) \/ (c.idx = 2 /\ c.k = "upsert"))
\* "upsert": INSERT .. ON CONFLICT .. DO UPDATE <line break> SET q = ..;   - a skipped statement whose LAST line starts with SET
IsSkip(c) == c # NoCode /\ c.idx = 1 /\ c.k \in {"go", "insert", "grant", "upsert"}
IsSet(c) == c # NoCode /\ ((c.idx = 1 /\ c.k = "set") \/ (c.idx = 2 /\ c.k = "upsert"))
EndsSemi(c) == c # NoCode /\ c.idx = c.n /\ c.k \notin {"go", "tablens"}
\* parenthesis balance of the pending statement after this piece: balanced iff the statement is complete or has no parens
OpensParen(c) == c.k \in {"table", "tablens", "insert"} /\ c.idx < c.n

Init ==
    /\ stmts = <<>> /\ pos = <<1, 1>> /\ blk = 0 /\ ncm = 0 /\ lines = <<>>
    /\ statement = None /\ set_line = None /\ set_was = FALSE /\ mlc = FALSE /\ nblock = 0
    /\ comments = <<>> /\ submitted = <<>> /\ nset = 0 /\ ended = FALSE /\ hist = <<>>

Balanced(st) == \* statement.count("(") == statement.count(")"): every piece that opened has its closing piece
    LET opened == {p \in Range(st) : p[1] = "code" /\ \E i \in DOMAIN stmts : i = p[2] /\ OpensParen([sid |-> p[2], idx |-> p[3], n |-> stmts[i].n, k |-> stmts[i].k])}
    IN  \A p \in opened : \E q \in Range(st) : q[1] = "code" /\ q[2] = p[2] /\ q[3] = stmts[p[2]].n

\* A statement is LEFT PENDING at its last line (it reaches the grammar with the next statement start / the end of input) when it is
\* unterminated, or when it is a one-line statement that itself ended a pending statement (process_statement parses the old statement and
\* keeps the new line, `;` and all, as the pending one).  Computed from the source alone.
NewKinds == {"table", "tablens", "serde", "seq", "view", "ext", "drop", "alter", "alter_rn"}
LeftPending[i \in 0..Len(stmts)] ==
    IF i = 0 THEN FALSE
    ELSE stmts[i].k = "tablens" \/ (stmts[i].n = 1 /\ stmts[i].k \in NewKinds /\ LeftPending[i - 1])

(* ---- parser.py process_line, one source line --------------------------------------------------- *)
Line(l, notLast) ==
    LET hasDash == l.cm.style \in {"dash", "tdash"} \/ l.cm.dash
        hasBO == l.cm.style \in {"blk1", "open", "tblk1", "topen"}
        hasBC == l.cm.style \in {"blk1", "close", "tblk1"}
        whole == l.code = NoCode
        lineCommentStart == whole /\ l.cm.style \in {"dash", "hash"}
        rawStartsBO == whole /\ ~l.ind /\ l.cm.style \in {"blk1", "open"}
        rawStartsBC == whole /\ ~l.ind /\ l.cm.style = "close" /\ l.cm.cid = 0      \* a line that is just `*/`
        cpiece == IF whole THEN <<>> ELSE <<CodeP(l.code)>>
        \* -- pre_process_line / catch_comment_or_process_line / process_inline_comments
        inMlc == mlc
        \* code kept, comment items appended
        res ==
          IF inMlc THEN [code |-> <<>>, items |-> <<CmtP(l.cm.cid, "line")>>, push |-> 0]
          ELSE IF lineCommentStart THEN [code |-> IF Variant = "dash_line_kept" THEN <<CmtP(l.cm.cid, "line")>> ELSE <<>>, items |-> <<>>, push |-> 0]
          ELSE
            LET \* process_line_before_comment
                c1 == IF hasDash
                      THEN (IF l.cm.style \in {"dash", "tdash"} THEN cpiece                 \* text before the `--`
                            ELSE cpiece \o <<CmtP(l.cm.cid, "predash")>>)       \* block text cut at its `--`: what precedes it is kept as code
                      ELSE IF ~hasBC /\ ~hasBO THEN (IF l.cm.style = "mid" THEN <<CmtP(l.cm.cid, "line")>> ELSE cpiece)
                      ELSE <<>>
                i1 == IF hasDash THEN <<CmtP(l.cm.cid, "postdash")>> ELSE <<>>
                \* `/*` in the line: what precedes it is code, what follows is the comment
                c2 == IF hasBO THEN (IF hasDash THEN c1 ELSE c1 \o cpiece) ELSE c1
                i2 == IF hasBO THEN <<CmtP(l.cm.cid, "postopen")>> ELSE <<>>
            IN  [code |-> c2, items |-> i1 \o i2, push |-> IF hasBO THEN 1 ELSE 0]
        mlc1 == IF Variant = "mlc_sticky" /\ inMlc THEN TRUE
                ELSE IF rawStartsBO /\ ~hasBC THEN TRUE
                ELSE IF inMlc /\ hasBC THEN FALSE
                ELSE IF rawStartsBC THEN FALSE ELSE (IF inMlc THEN (IF hasBC THEN FALSE ELSE TRUE) ELSE mlc)
        code == res.code                           \* self.line after pre_process_line (stripped)
        cfeat == IF code # <<>> /\ code[1][1] = "code" THEN l.code ELSE NoCode      \* features are those of the code piece, if any survives
        empty == code = <<>>
        skip == IsSkip(cfeat)
        \* -- parse_set_statement
        isSet == IsSet(cfeat)
        set1 == IF isSet THEN [sl |-> <<"set">>, sw |-> TRUE, emit |-> IF set_line = None THEN 0 ELSE 1]
                ELSE IF set_line # None /\ set_was THEN [sl |-> None, sw |-> FALSE, emit |-> 1]   \* (3-word set lines are emitted here too)
                ELSE IF set_line # None THEN [sl |-> None, sw |-> FALSE, emit |-> 1]
                ELSE [sl |-> set_line, sw |-> set_was, emit |-> 0]
        \* -- check_new_statement_start
        new == statement # None /\ Balanced(statement) /\ StartsNew(cfeat)
        final == EndsSemi(cfeat) /\ ~set1.sw
        \* -- add_line_to_statement
        st1 == IF ~empty /\ ~skip /\ ~set1.sw /\ ~new
               THEN (IF statement = None THEN code ELSE statement \o code) ELSE statement
        terminate == (final \/ new) /\ st1 # None
        goOn == terminate \/ ~(notLast /\ ~skip)      \* otherwise `return`: keep combining lines
        \* -- process_statement
        doParse == goOn /\ set1.sl = None /\ st1 # None
    IN  /\ comments' = comments \o res.items
        /\ nblock' = nblock + res.push
        /\ mlc' = mlc1
        /\ set_line' = set1.sl /\ set_was' = set1.sw /\ nset' = nset + set1.emit
        /\ submitted' = IF doParse THEN Append(submitted, st1) ELSE submitted
        /\ statement' = IF goOn THEN (IF new THEN code ELSE None) ELSE st1

(* ---- the environment: writes the script line by line, inside the domain of C03 / C08 ---------------- *)
Started == pos[1] \in DOMAIN stmts               \* a statement is being written (its first piece is out)
ScriptDone == ~Started                           \* every statement begun so far is complete
\* is the line being written the last line of the script?  (the environment knows: nothing may follow)
Write(l, last) ==
    /\ ~ended
    /\ lines' = Append(lines, l)
    /\ Line(l, TrailingNL \/ ~last)
    /\ hist' = (IF WithHist THEN Append(hist, l) ELSE hist)
    /\ UNCHANGED ended

\* the empty last element the line splitter yields when the text ends with a line break
EndOfInput ==
    /\ TrailingNL /\ ~ended /\ ScriptDone /\ pos[2] = 1 /\ blk = 0
    /\ Line([ind |-> FALSE, code |-> NoCode, cm |-> NoCm], FALSE)
    /\ ended' = TRUE
    /\ UNCHANGED <<stmts, pos, blk, ncm, lines, hist>>

WriteCode(d, trail) ==  \* the next code piece (of the statement in progress, or the first piece of a new statement d)
    /\ blk = 0
    /\ IF Started THEN d = stmts[pos[1]]
       ELSE /\ Len(stmts) < MaxStmts /\ pos[2] = 1
            \* an unterminated statement can only be followed by a line that starts a statement (anything else is glued to it), and a SET line
            \* discards it (process_statement parses nothing while a SET line is pending): both outside the scripts of C03 / C08
            \* (a ONE-line `;`-terminated statement after a pending one keeps its `;` when it is parsed at the end of input: `START 1;`
            \*  raises ValueError, `ADD UNIQUE (a);` TypeError - scripts mixing the two styles that way are outside C03 / C08, see OBSERVATIONS.md)
            /\ LeftPending[Len(stmts)] => d.k \in NewKinds /\ (d.n >= 2 \/ d.k = "tablens")
            /\ d.k \in {"alter", "alter_rn"} => (\E i \in DOMAIN stmts : stmts[i].k \in {"table", "tablens", "serde"}) /\ (\A i \in DOMAIN stmts : stmts[i].k # d.k)
    /\ LET c == [sid |-> pos[1], idx |-> pos[2], n |-> d.n, k |-> d.k]
           cm == IF trail = "none" THEN NoCm ELSE [style |-> trail, cid |-> ncm + 1, dash |-> FALSE]
           l == [ind |-> FALSE, code |-> c, cm |-> cm]
       IN  /\ trail # "none" => (ncm < MaxCm /\ trail \in CmStyles)
           /\ stmts' = IF Started THEN stmts ELSE Append(stmts, d)
           /\ Write(l, FALSE)
           /\ pos' = IF pos[2] = d.n THEN <<pos[1] + 1, 1>> ELSE <<pos[1], pos[2] + 1>>
           /\ ncm' = IF trail = "none" THEN ncm ELSE ncm + 1
           /\ blk' = IF trail = "topen" THEN 1 ELSE 0      \* a trailing opener is closed by the next line

WriteComment(style, ind, dash) ==    \* a whole-line comment (or the opening line of a block)
    /\ blk = 0 /\ ncm < MaxCm /\ style \in CmStyles \cap {"dash", "hash", "blk1", "block2", "block3"}
    /\ LET st == IF style \in {"block2", "block3"} THEN "open" ELSE style
           l == [ind |-> ind, code |-> NoCode, cm |-> [style |-> st, cid |-> ncm + 1, dash |-> dash /\ st # "dash" /\ st # "hash"]]
       IN  /\ Write(l, FALSE)
           /\ ncm' = ncm + 1
           /\ blk' = IF style = "block2" THEN 1 ELSE IF style = "block3" THEN 2 ELSE 0
    /\ UNCHANGED <<pos, stmts>>

WriteBlockRest(ind, dash) ==      \* middle / closing lines of the open block comment
    /\ blk > 0
    /\ LET st == IF blk = 1 THEN "close" ELSE "mid"
           l == [ind |-> ind, code |-> NoCode, cm |-> [style |-> st, cid |-> ncm, dash |-> dash]]
       IN  Write(l, FALSE)
    /\ blk' = blk - 1
    /\ UNCHANGED <<pos, ncm, stmts>>

Next == \/ \E d \in StmtKinds, t \in {"none", "tdash", "tblk1", "topen"} : WriteCode(d, t)
        \/ \E s \in CmStyles, i \in Indents, d \in DashInText : WriteComment(s, i, d)
        \/ \E i \in Indents, d \in DashInText : WriteBlockRest(i, d)
        \/ EndOfInput
Spec == Init /\ [][Next]_vars
-----------------------------------------------------------------------------
AtBoundary == blk = 0 /\ pos[2] = 1          \* between statements (every statement written so far is complete)
Complete == ended
\* the statements the grammar must receive: for every complete non-skip, non-set statement its code pieces, in order
StmtPieces(i) == [j \in 1..stmts[i].n |-> <<"code", i, j>>]
Expected == LET idx == SelectSeq([i \in 1..(pos[1] - 1) |-> i], LAMBDA i : stmts[i].k \notin {"go", "insert", "grant", "set", "upsert"})
            IN  [j \in DOMAIN idx |-> StmtPieces(idx[j])]
\* a line of the form `INSERT ...` / `GRANT ...` is dropped by the skip regex only on its FIRST line; further lines of a
\* multi-line skipped statement reach the grammar as a statement of their own (and are rejected there)
ExpectedWithTails ==
    LET idx == SelectSeq([i \in 1..(pos[1] - 1) |-> i], LAMBDA i : stmts[i].k \notin {"go", "set", "upsert"} /\ ~(stmts[i].k \in {"insert", "grant"} /\ stmts[i].n = 1))
    IN  [j \in DOMAIN idx |-> IF stmts[idx[j]].k \in {"insert", "grant"}
                              THEN [q \in 1..(stmts[idx[j]].n - 1) |-> <<"code", idx[j], q + 1>>] ELSE StmtPieces(idx[j])]

\* the last complete statement is an unterminated one: it is still pending (it reaches the grammar with the next statement start / end of input)
PendingNS == pos[2] = 1 /\ pos[1] > 1 /\ (pos[1] - 1) \in DOMAIN stmts /\ LeftPending[pos[1] - 1] /\ ~ended
ExpectedNow == IF PendingNS THEN SubSeq(ExpectedWithTails, 1, Len(ExpectedWithTails) - 1) ELSE ExpectedWithTails

(* deviations of the shipped scanner, each detected from the SOURCE (lines), so that the tag is independent of the mechanism *)
DevIndentedBlock == \E i \in DOMAIN lines : lines[i].code = NoCode /\ lines[i].ind /\ lines[i].cm.style \in {"open", "mid", "close"}
DevDashInBlock == \E i \in DOMAIN lines : lines[i].cm.dash
DevTrailingOpen == \E i \in DOMAIN lines : lines[i].cm.style = "topen"
DevSetLast == Complete /\ set_line # None
Dev == (IF DevIndentedBlock THEN {"indented_block"} ELSE {}) \cup (IF DevDashInBlock THEN {"dash_in_block"} ELSE {})
       \cup (IF DevTrailingOpen THEN {"trailing_open"} ELSE {})

NoCmt(st) == \A p \in Range(st) : p[1] = "code"
\* C08: comment text never reaches the grammar
NoCommentInCode == Dev = {} => \A i \in DOMAIN submitted : NoCmt(submitted[i])
\* C03 / C08: at every statement boundary the grammar has received exactly the complete statements, whole and in order
SubmittedExact == (AtBoundary /\ Dev = {}) => submitted = ExpectedNow
\* C03: nothing is carried over a statement boundary
CleanBoundary == (AtBoundary /\ Dev = {}) => statement = (IF PendingNS THEN StmtPieces(pos[1] - 1) ELSE None) /\ ~mlc
\* C08: every reported comment item comes from a source comment, in source order, and no code is reported as comment
CommentsFromSource == /\ \A i \in DOMAIN comments : comments[i][1] = "cmt"
                      /\ \A i, j \in DOMAIN comments : i < j => comments[i][2] <= comments[j][2]
\* C03: every SET statement followed by another line is emitted exactly once
SetsEmitted == (AtBoundary /\ Dev = {}) =>
                 nset + (IF set_line # None THEN 1 ELSE 0) = Cardinality({i \in 1..(pos[1] - 1) : stmts[i].k \in {"set", "upsert"}})

Emit == (WithHist /\ Complete) =>
          PrintT(<<"BEH", ToJson([stmts |-> stmts, lines |-> lines, expected |-> Expected, submitted |-> submitted, comments |-> comments,
                                  dev |-> Dev, setlast |-> DevSetLast, nset |-> nset])>>)
View == <<stmts, pos, blk, ncm, lines, statement, set_line, set_was, mlc, nblock, comments, submitted, nset, ended>>
=============================================================================
