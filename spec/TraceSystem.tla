----------------------------- MODULE TraceSystem -----------------------------
(***************************************************************************)
(* Code -> spec binding for spec/System.tla: the guarded events the library *)
(* already emits during run() - StartRun, ParseStmt (one per statement that *)
(* reached the grammar, with what the grammar returned), Apply (one per raw *)
(* item folded by Output.format, with its kind and the entity count after   *)
(* it), FinishRun - plus the exception that escaped, recorded from real      *)
(* executions, are validated against the STAGE machine of System.tla:        *)
(*   write -> parse -> fold -> present/done | raised ; Rerun                 *)
(* stated over what the events expose:                                       *)
(*   StageOrder   no statement is parsed once folding has started            *)
(*   FoldCounts   a table / other item adds exactly one entity, an ALTER /    *)
(*                CREATE INDEX none; table+alter+index items never exceed     *)
(*                the statements the grammar accepted; at FinishRun every     *)
(*                accepted statement has been folded                          *)
(*   Raising      DDLParserError only in the parse stage and only when the    *)
(*                object is not silent; a rejected statement is seen          *)
(*                (ParseStmt with an empty result) only when it is silent;    *)
(*                ValueError only after at least one accepted statement       *)
(*   Rerun        the counters start from zero at every StartRun              *)
(* Many traces per TLC run (tid), one state per event.                        *)
(***************************************************************************)
EXTENDS Naturals, Sequences, FiniteSets, TLC, Json, IOUtils

CONSTANTS Strict
Traces == JsonDeserialize(IOEnv.TRACE_FILE)

VARIABLES tid, k, pc, nacc, ntai, napp, nents, ok
vars == <<tid, k, pc, nacc, ntai, napp, nents, ok>>
TInit == tid = 1 /\ k = 1 /\ pc = "idle" /\ nacc = 0 /\ ntai = 0 /\ napp = 0 /\ nents = 0 /\ ok = TRUE
Cur == Traces[tid].ev[k]
Silent == Traces[tid].silent

\* <<accepted?, next pc, nacc, ntai, napp, nents>>
Step(e) ==
    CASE e.e = "Start"  -> <<pc \in {"idle", "done", "raised"}, "parse", 0, 0, 0, 0>>
      [] e.e = "Parse"  -> <<pc = "parse" /\ (e.acc \/ Silent), "parse", nacc + (IF e.acc THEN 1 ELSE 0), ntai, napp, nents>>
      [] e.e = "Apply"  -> LET adds == IF e.kind \in {"table", "other"} THEN 1 ELSE 0
                               tai == IF e.kind \in {"table", "alter", "index"} THEN 1 ELSE 0
                           IN  <<pc \in {"parse", "fold"} /\ e.n = nents + adds /\ ntai + tai <= nacc, "fold", nacc, ntai + tai, napp + 1, e.n>>
      [] e.e = "Finish" -> <<pc \in {"parse", "fold"} /\ napp >= nacc, "done", nacc, ntai, napp, nents>>
      [] e.e = "Raised" -> <<CASE e.exc = "DDLParserError" -> pc = "parse" /\ ~Silent
                               [] e.exc = "ValueError" -> pc \in {"parse", "fold"} /\ nacc >= 1 /\ ntai < nacc
                               [] OTHER -> FALSE,
                             "raised", nacc, ntai, napp, nents>>
      [] OTHER -> <<FALSE, pc, nacc, ntai, napp, nents>>

NextTrace == tid' = tid + 1 /\ k' = 1 /\ pc' = "idle" /\ nacc' = 0 /\ ntai' = 0 /\ napp' = 0 /\ nents' = 0 /\ ok' = TRUE
TNext ==
    /\ tid <= Len(Traces)
    /\ IF ~ok \/ k > Len(Traces[tid].ev)
       THEN NextTrace
       ELSE LET s == Step(Cur) IN
            /\ ok' = s[1]
            /\ pc' = s[2] /\ nacc' = s[3] /\ ntai' = s[4] /\ napp' = s[5] /\ nents' = s[6]
            /\ k' = k + 1 /\ tid' = tid

Report ==
    /\ (tid <= Len(Traces) /\ ~ok) => PrintT(<<"REJ", ToJson([tid |-> tid, line |-> k - 1, model |-> [pc |-> pc, nacc |-> nacc, ntai |-> ntai, napp |-> napp, nents |-> nents]])>>)
    /\ (tid <= Len(Traces) /\ ok /\ k > Len(Traces[tid].ev)) => PrintT(<<"ACC", ToJson([tid |-> tid])>>)
TInv == TRUE
=============================================================================
