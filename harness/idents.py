"""Identifier spellings shared by all renderers.

A specification name is a pair (base, spelling-class): "same" is the spelling used at the declaration, "other" any
other spelling of the same identifier (letter case and/or delimiters).  The concrete form for each class is chosen per
rendering from FORMS by a seeded generator, so different seeds exercise different delimiter / case combinations while
the abstract behaviour (and therefore the expected result computed by TLC) stays the same.
"""
import random

FORMS = ("plain", "upper", "dq", "dqU", "br", "bt")


def spell(base, form):
    if form == "plain":
        return base
    if form == "upper":
        return base.upper()
    if form == "dq":
        return '"' + base + '"'
    if form == "dqU":
        return '"' + base.upper() + '"'
    if form == "br":
        return "[" + base + "]"
    if form == "bt":
        return "`" + base + "`"
    raise ValueError(form)


class Speller:
    """Maps (base, class) -> text.  `forms` restricts the pool (e.g. no brackets inside column lists)."""

    def __init__(self, seed, forms=FORMS, same_forms=None):
        self.rnd = random.Random(seed)
        self.forms = tuple(forms)
        self.same_forms = tuple(same_forms or forms)
        self.memo = {}

    def __call__(self, base, cls="same", tag=""):
        if base == "":
            return ""
        k = (tag, base, cls)
        if k not in self.memo:
            if cls == "same":
                self.memo[k] = self.rnd.choice(self.same_forms)
            else:
                same = self.memo.get((tag, base, "same"))
                if same is None:
                    same = self.memo[(tag, base, "same")] = self.rnd.choice(self.same_forms)
                self.memo[k] = self.rnd.choice([f for f in self.forms if f != same])
        return spell(base, self.memo[k])

    def pair(self, p):
        return self(p[0], p[1])


def strip_delims(s):
    if len(s) > 2 and ((s[0] == '"' and s[-1] == '"') or (s[0] == "`" and s[-1] == "`") or (s[0] == "[" and s[-1] == "]")):
        return s[1:-1]
    return s
