"""Code -> spec: record the StartRun / ParseStmt / Apply / FinishRun events of whole run() calls (and the escaping exception) and have
TLC validate them against the stage machine of spec/TraceSystem.tla."""
from . import common as C
from . import tracecheck as T


def _record(task):
    text, ctor, run, nruns = task
    lib = C._import_lib()
    _verif = C.hooks()
    ev = []
    out = []
    _verif.sink = ev.append
    try:
        try:
            p = lib.DDLParser(text, **ctor)
        except BaseException:  # noqa
            return None
        for _ in range(nruns):
            del ev[:]
            exc = None
            try:
                p.run(**run)
            except BaseException as e:  # noqa
                exc = type(e).__name__
            for e in ev:
                if e["event"] == "StartRun":
                    out.append({"e": "Start"})
                elif e["event"] == "ParseStmt":
                    out.append({"e": "Parse", "acc": e.get("result") not in ("None", "{}", "[]", "''")})
                elif e["event"] == "Apply":
                    out.append({"e": "Apply", "kind": e["kind"], "n": int(e["n_entities"])})
                elif e["event"] == "FinishRun":
                    out.append({"e": "Finish"})
            if exc is not None:
                out.append({"e": "Raised", "exc": exc})
    finally:
        _verif.sink = None
    return {"silent": bool(ctor.get("silent", True)), "ev": out}


def record(tasks):
    """tasks: (text, ctor kwargs, run kwargs, number of run() calls)"""
    return C.pool().map(_record, tasks, 8)


def validate(traces):
    keep = [(i, t) for i, t in enumerate(traces) if t and t["ev"]]
    if not keep:
        return 0, [], None
    acc, rej, r = T.validate("TraceSystem", [t for _, t in keep], {}, strict=True, invariants=("TInv",))
    return len(acc), [(keep[p["tid"] - 1][0], p.get("line"), p.get("model")) for p in rej if p.get("tid")], r
