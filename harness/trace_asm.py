"""Code -> spec: record the real line assembler's per-line events and have TLC validate them against spec/TraceAssembler.tla."""
import re

from . import common as C
from . import tracecheck as T

IN_COMMENT = re.compile(r"((\")|(\'))+(.)*(--)+(.)*((\")|(\'))+")
SKIP = re.compile(r"^(GO|USE|INSERT|GRANT|DELETE)\b")


def feats(c):
    s = c.strip().replace("\n", "").replace("\t", "")
    u = s.upper()
    return {"empty": s == "", "skip": bool(SKIP.match(u)), "isSet": bool(re.match(r"SET ", u)),
            "startsNew": u.startswith(("ALTER ", "CREATE ", "DROP ", "SET ")), "endsSemi": s.endswith(";"),
            "opens": s.count("("), "closes": s.count(")"), "words3": len(s.split()) == 3, "hasBC": "*/" in c}


def line_record(raw):
    line = re.sub(r"(\b)=", " = ", raw)
    f = {"hasDash": "--" in line, "dashQuoted": bool(IN_COMMENT.search(line)), "hasBO": "/*" in line, "hasBC": "*/" in line,
         "rawStartsBO": line.startswith("/*"), "rawStartsBC": line.startswith("*/"),
         "lineCommentStart": line.strip().startswith("#") or line.strip().startswith("--"),
         "postBOne": bool(line.split("/*")[1]) if "/*" in line else False,
         "preBCne": bool(line.split("*/")[0]) if "*/" in line else False}
    pre_bo = line.split("/*")[0] if "/*" in line else ""
    post_bc = line.split("*/")[1] if "*/" in line else ""
    bases = {"empty": "", "whole": line, "preDash": line.split("--")[0]}
    c = {}
    for k, v in bases.items():
        c[k] = feats(v)
        c[k + "+bc"] = feats(v + post_bc)
        c[k + "+bo"] = feats(v + pre_bo)
        c[k + "+bo+bc"] = feats(v + pre_bo + post_bc)
    return f, c


def _record(task):
    """run the real library on a script with the event sink installed -> trace (list of per-line records)"""
    text, ctor = task
    lib = C._import_lib()
    _verif = C.hooks()
    ev = []
    _verif.sink = ev.append
    try:
        try:
            lib.DDLParser(text, **ctor).run()
        except BaseException:  # noqa
            pass
    finally:
        _verif.sink = None
    out = []
    nsub = 0
    for e in ev:
        if e["event"] == "ParseStmt":
            nsub += 1
        elif e["event"] == "Line":
            f, c = line_record(e["raw"])
            out.append({"f": f, "c": c, "notLast": bool(e["not_last"]),
                        "st": {"pending": bool(e["pending"]), "mlc": bool(e["mlc"]), "setline": "none" if not e["set_line"] else "some",
                               "setwas": bool(e["set_was"]), "nblock": int(e["n_block"]), "ncomments": len(e["comments"]), "nsub": nsub}})
        elif e["event"] == "StartRun":
            out, nsub = [], 0
    return out


def record(scripts):
    """scripts: list of (text, ctor) -> list of traces"""
    return C.pool().map(_record, scripts, 8)


def validate(traces, strict):
    """-> (n accepted, rejections [(index into traces, line, model state)], TLC result)"""
    keep = [(i, t) for i, t in enumerate(traces) if t]
    if not keep:
        return 0, [], None
    objs = [{"ev": t} for _, t in keep]
    acc, rej, r = T.validate("TraceAssembler", objs, {}, strict=strict, invariants=("TInv",))
    return len(acc), [(keep[p["tid"] - 1][0], p.get("line"), p.get("model")) for p in rej if p.get("tid")], r
