"""Renderer / projection tables for spec/Registry.tla (layer O).

render():   Registry statement records  ->  DDL text (one `;`-terminated statement per record)
expected(): the `ents` / `err` TLC computed for the behaviour  ->  the projection below, with names spelled
project():  what DDLParser(...).run() returned  ->  the same projection
Only things C04 pins are projected: schema/name as declared, ordered columns (name, type, default text, unique flag),
the alter sections and the index records.
"""
from .idents import Speller

VALUES = {"v1": "'x'", "v2": "'y z'", "v3": "7", "v4": "NULL", "": ""}  # v3 (numeric) only with a named constraint: the unnamed numeric form is not a supported ALTER
CHECKS = {"e1": ("(a1 > 0)", "a1 > 0")}
REF = ("s9", "o")
OTHER_DDL = {
    "sequence": "CREATE SEQUENCE sq1 START 1;",
    "type": "CREATE TYPE ty1 AS ENUM ('x', 'y');",
    "domain": "CREATE DOMAIN dm1 AS varchar(5);",
    "schema": "CREATE SCHEMA sc1;",
    "database": "CREATE DATABASE db1;",
    "tablespace": "CREATE TABLESPACE ts1;",
    "ddl_property": "SET qq = 1;",
    # a table created LIKE the table the script's ALTERs work on: its own (empty) column list and alter section must stay untouched by them
    "liketable": "CREATE TABLE zlike LIKE s1.t;",
}
OTHER_KEY = {"sequence": "sequence_name", "type": "type_name", "domain": "domain_name", "schema": "schema_name",
             "database": "database_name", "tablespace": "tablespace_name", "ddl_property": "value"}
MODIFY_FORMS = ("MODIFY COLUMN {c} bigint", "ALTER COLUMN {c} bigint", "MODIFY {c} bigint")


def mk_spellers(seed):
    # table / schema names: all six forms; column names inside statements: all six as well
    return {"tab": Speller(f"tab{seed}"), "col": Speller(f"col{seed}"), "seed": seed}


def tgt(sp, t, cls):
    # schema and table parts are spelled independently (memo tag), so `s1.t` may become "S1".[t]
    sch = sp["tab"](t[0], cls[0], "S") if t[0] else ""
    nm = sp["tab"](t[1], cls[1], "T")
    return (sch + "." if sch else "") + nm


# column names that are statement-opening words of SQL scripts but no grammar keywords: chosen instead of a, b, c .. by every odd seed
WORD_NAMES = {"a": "begin", "b": "end", "c": "commit", "d": "rollback", "e": "merge", "f": "truncate", "g": "revoke", "r": "declare", "n": "work"}


def col(sp, c):
    base = WORD_NAMES.get(c[0], c[0]) if sp["seed"] % 2 == 1 else c[0]
    return sp["col"](base, c[1])


def multiline(sp, idx):
    """every second ALTER / CREATE INDEX statement of an odd seed is written over several lines, each name first on its line"""
    return (sp["seed"] + idx) % 2 == 1


def lst(sp, idx, items):
    return "(\n  " + ",\n  ".join(items) + "\n)" if multiline(sp, idx) else "(" + ", ".join(items) + ")"


def val(v, cn):
    return VALUES[v]


def render_stmt(sp, s, idx=0):
    k = s["k"]
    if k == "create":
        cols = ", ".join(f"{col(sp, (b, 'same'))} {ty}" for b, ty in (("a", "int"), ("b", "varchar(10)"), ("c", "int")))
        return f"CREATE TABLE {tgt(sp, s['t'], ('same', 'same'))} ({cols});"
    if k == "other":
        return OTHER_DDL[s["x"]]
    T = tgt(sp, s["t"], s["sp"])
    cn = f"CONSTRAINT {s['cn']} " if s["cn"] and k != "index" else ""
    cs = ", ".join(col(sp, c) for c in s["cs"]) if k != "index" else ""
    csl = lst(sp, idx, [col(sp, c) for c in s["cs"]]) if k != "index" else ""
    nl = "\n  " if multiline(sp, idx) else " "
    if k == "addcol":
        opt = {"": "", "ref": f" REFERENCES {REF[0]}.{REF[1]} (x)", "dflt": f" DEFAULT {VALUES['v1']}", "uniq": " UNIQUE"}[s["x"]]
        return f"ALTER TABLE {T} ADD{nl}{col(sp, s['c'])} int{opt};"
    # a trailing option word (legal in several dialects) after a SCHEMA-QUALIFIED statement; every third rendering
    tail = lambda w: (" " + w) if (s["t"][0] and (sp["seed"] + idx) % 3 == 0) else ""  # noqa
    if k == "drop":
        return f"ALTER TABLE {T} DROP COLUMN{nl}{col(sp, s['c'])}{tail('CASCADE')};"
    if k == "rename":
        return f"ALTER TABLE {T}{nl}RENAME COLUMN{nl}{col(sp, s['c'])} TO{nl}{col(sp, (s['x'], 'same'))}{tail('CASCADE')};"
    if k == "modify":
        form = MODIFY_FORMS[(sp["seed"] + idx) % len(MODIFY_FORMS)]
        return f"ALTER TABLE {T} " + form.format(c=col(sp, s["c"])) + ";"
    if k == "unique":
        return f"ALTER TABLE {T} ADD {cn}UNIQUE {csl}{tail('ENABLE') if cn else ''};"
    if k == "pk":
        return f"ALTER TABLE {T} ADD {cn}PRIMARY KEY {csl};"
    if k == "default":
        return f"ALTER TABLE {T} ADD {cn}DEFAULT {val(s['x'], s['cn'])} FOR {cs};"
    if k == "check":
        return f"ALTER TABLE {T} ADD {cn}CHECK {CHECKS[s['x']][0]};"
    if k == "fk":
        refs = ", ".join(("x", "y", "z")[: len(s["cs"])])
        return f"ALTER TABLE {T} ADD {cn}FOREIGN KEY {csl} REFERENCES {REF[0]}.{REF[1]} ({refs}){tail('ENABLE')};"
    if k == "index":
        cols = lst(sp, idx, [col(sp, c) + (" " + d if d else "") for c, d in s["cs"]])
        u = "UNIQUE " if s["x"] == "unique" else ""
        return f"CREATE {u}INDEX {s['cn']} ON {T} {cols};"
    raise ValueError(k)


def render(hist, seed):
    sp = mk_spellers(seed)
    return "\n".join(render_stmt(sp, s, i) for i, s in enumerate(hist)) + "\n", sp


def _ecol(sp, c):
    return {"n": col(sp, c["n"]), "ty": c["ty"], "df": VALUES.get(c["df"], c["df"]), "uq": c["uq"], "rf": c["rf"]}


def expected(beh, sp):
    out = []
    for e in beh["ents"]:
        if e["kind"] != "table":
            out.append({"kind": e["kind"]})
            continue
        t = (e["sch"], e["nm"])
        out.append({
            "kind": "table",
            "sch": sp["tab"](t[0], "same", "S") if t[0] else "",
            "nm": sp["tab"](t[1], "same", "T"),
            "cols": [_ecol(sp, c) for c in e["cols"]],
            "acols": [{"n": col(sp, a["n"]), "fk": a["fk"], "cn": a["cn"], "rc": a["rc"], "rt": "ok" if a["fk"] else ""} for a in e["acols"]],
            "uniques": [{"cn": u["cn"], "cs": [col(sp, c) for c in u["cs"]]} for u in e["uniques"]],
            "pks": [{"cn": u["cn"], "cs": [col(sp, c) for c in u["cs"]]} for u in e["pks"]],
            "defaults": [{"cn": u["cn"], "cs": [col(sp, c) for c in u["cs"]], "v": val(u["v"], u["cn"])} for u in e["defaults"]],
            "checks": [{"cn": u["cn"], "e": CHECKS[u["e"]][1]} for u in e["checks"]],
            "renamed": [{"from": col(sp, r["from"]), "to": col(sp, r["to"])} for r in e["renamed"]],
            "dropped": [_ecol(sp, c) for c in e["dropped"]],
            "modified": [_ecol(sp, c) for c in e["modified"]],
            "index": [{"nm": i["nm"], "uq": i["uq"], "cs": [[col(sp, c), d or "ASC"] for c, d in i["cs"]]} for i in e["index"]],
        })
    return {"err": beh["err"], "ents": out}


def _pcol(c):
    d = c.get("default")
    rf = c.get("references") if "type" in c else None
    rf = "" if not rf else ("r" if (rf.get("table"), rf.get("schema"), rf.get("column")) == (REF[1], REF[0], "x") else "?" + repr(rf))
    return {"n": c.get("name"), "ty": c.get("type", "-"), "df": "" if d is None else str(d), "uq": bool(c.get("unique")), "rf": rf}


def _one(x):
    if isinstance(x, dict):
        return [_pcol(x)]
    return []


def project_entity(e):
    if "like" in e and "table_name" in e:
        untouched = not e.get("columns") and not e.get("alter") and not e.get("index")
        return {"kind": "liketable"} if untouched else {"kind": "liketable", "columns": [c.get("name") for c in e.get("columns", [])], "alter": e.get("alter"), "index": e.get("index")}
    if "table_name" not in e:
        for kind, key in OTHER_KEY.items():
            if key in e:
                return {"kind": kind}
        return {"kind": "?" + ",".join(sorted(e))[:40]}
    al = e.get("alter") or {}
    sch = e.get("schema", e.get("dataset"))
    return {
        "kind": "table",
        "sch": sch or "",
        "nm": e["table_name"],
        "cols": [_pcol(c) for c in e["columns"]],
        "acols": [{"n": a.get("name"), "fk": "type" not in a and bool(a.get("references")),
                   "cn": a.get("constraint_name") or "" if "type" not in a else "",
                   "rc": (a.get("references") or {}).get("column", "") if "type" not in a else "",
                   # the referenced table of an ALTER .. FOREIGN KEY, whole (schema / dataset as declared on EVERY column of a composite key)
                   "rt": ("" if "type" in a or not a.get("references") else
                          ("ok" if (a["references"].get("table"), a["references"].get("schema", a["references"].get("dataset"))) == (REF[1], REF[0])
                           else repr((a["references"].get("table"), a["references"].get("schema", a["references"].get("dataset")))))) }
                  for a in al.get("columns", [])],
        "uniques": [{"cn": u.get("constraint_name") or "", "cs": u["columns"]} for u in al.get("uniques", [])],
        "pks": [{"cn": u.get("constraint_name") or "", "cs": u["columns"]} for u in al.get("primary_keys", [])],
        "defaults": [{"cn": u.get("constraint_name") or "", "cs": u["columns"], "v": str(u["value"])} for u in al.get("defaults", [])],
        "checks": [{"cn": u.get("constraint_name") or "", "e": u["statement"]} for u in al.get("checks", [])],
        "renamed": [{"from": r["from"], "to": r["to"]} for r in al.get("renamed_columns", [])],
        "dropped": _one(al.get("dropped_columns")),
        "modified": _one(al.get("modified_columns")),
        "index": [{"nm": i["index_name"], "uq": bool(i["unique"]),
                   "cs": [[d["name"], d["order"]] for d in i["detailed_columns"]]} for i in e.get("index", [])],
    }


def project(outcome):
    if outcome[0] == "exc":
        return {"err": True, "ents": None, "exc": outcome[1]}
    res = outcome[1]
    return {"err": False, "ents": [project_entity(e) for e in res if "comments" not in e]}
