"""Shared driver for the properties decided by spec/TableFold.tla (C01, C02, C09, C12)."""
import json
import re

from . import common as C
from . import tablefold as T

INV = ["ColumnsExact", "PKExact", "UniqueFlags", "ConstraintsExact", "RefsOnce", "ChecksOnce", "ShapeOK"]
PROPS = ["AppendOnly"]
IC6 = '{<<"a">>, <<"b">>, <<"c">>, <<"a","b">>, <<"b","a">>, <<"a","b","c">>}'
IC4 = '{<<"a">>, <<"b">>, <<"a","b">>, <<"c","b">>}'
ALLITEMS = '{"pk","uniq","check","fk","cpk","cuniq","ccheck","cfk"}'


def rec(g, v):
    return f'[g |-> "{g}", v |-> "{v}"]'


def optset(*pairs):
    return "{" + ", ".join(rec(g, v) for g, v in pairs) + "}"


CORE_OPTS = [("null", "null"), ("null", "notnull"), ("default", "d1"), ("default", "d2"), ("pk", "pk"), ("unique", "u"), ("ref", "r1"), ("ref", "r3"), ("ref", "r8")]


def consts(**kw):
    d = dict(ColNames='<<"a","b","c","d">>', MaxCols=3, TypeForms='{"vc"}', FocusAt=2, Opts=optset(*CORE_OPTS), MaxOpts=4,
             ItemKinds="{}", ItemCols='{<<"a">>}', MaxItems=0, Refs='{"r1"}', CheckIds='{"e1","e2"}', Variant='"shipped"', WithHist="FALSE")
    d.update(kw)
    return d


def mc(cs, what, expect=None, timeout=900, simulate=None, depth=None, seed=None):
    hist = cs["WithHist"] == "TRUE"
    invs, props = INV + (["Emit"] if hist else []), PROPS
    if expect:
        invs, props = ([expect], []) if expect in INV else ([], [expect])
    r = C.run_tlc_wrapped("TableFold", cs, dict(spec="Spec", invariants=invs, properties=props, view=None if hist else "View"),
                          workers=1 if hist else C.NCPU, timeout=timeout, simulate=simulate, depth=depth, seed=seed)
    if expect:
        if expect not in r.violated:
            raise C.MachineryError(f"negative control {what}: TLC no longer refutes {expect} (violated={r.violated})\n{r.tail[-600:]}")
    else:
        C.require_tlc_ok(r, what)
    return r


def abstract(b):
    out = []
    for a in b["hist"]:
        if a["a"] == "col":
            out.append("col:" + a["tf"])
        elif a["a"] == "opt":
            out.append(a["o"]["g"] + "=" + a["o"]["v"])
        elif a["a"] == "item":
            out.append(a["it"]["k"] + "(" + ",".join(a["it"]["cs"]) + ")")
    return out


def spec_tags(b):
    """deviation tags: those TLC computed (dev) plus the ones that are a function of the pool entry used
    (two-word referential actions, which the specification treats as opaque ids)"""
    tags = set(b.get("dev", []))
    for a in b["hist"]:
        rid = a["o"]["v"] if a["a"] == "opt" and a["o"]["g"] == "ref" else (a["it"]["r"] if a["a"] == "item" and a["it"]["k"] in ("fk", "cfk") else None)
        if rid and rid != "none":
            _, _, od, ou = T.REFS[rid][:4]
            if any(x and " " in x for x in (od, ou)):
                tags.add("twoword_inline" if a["a"] == "opt" else "twoword_table")
        if a["a"] == "opt" and a["o"]["g"] == "default" and a["o"]["v"] in T.DEFAULT_TAGS:
            tags.add(T.DEFAULT_TAGS[a["o"]["v"]])
        eid = a["it"]["e"] if a["a"] == "item" else (a["o"]["v"] if a["a"] == "opt" and a["o"]["g"] == "check" else None)
        if eid in T.CHECK_TAGS and a["a"] == "item":
            tags.add(T.CHECK_TAGS[eid])
    return tags


NEIGH = {"t0": ["p int", "q varchar(5)"], "t2": ["r int NOT NULL", "s int"], "t3": ["u text NULL"], "t1": ["v int", "w varchar(9)"]}


def compare(V, behs, seeds, what, keep, extra_tables=False, ctor=None, run=None, layouts=("oneline",)):
    """keep: function(projection dict) -> the part of the projection this property pins.
    Each behaviour is rendered once per seed; the seed also selects the concrete column names, the layout (from
    `layouts`) and - with extra_tables - the canonical neighbour tables written before / after it."""
    tasks, meta = [], []
    for b in behs:
        for sd in seeds:
            h = sd + len(b["hist"]) + sum(len(str(a)) for a in b["hist"])
            nm = T.name_map(sd + h % 8, salt=h % 97)     # all eight name pools for every seed, the drawn pools re-drawn per behaviour
            layout = layouts[h % len(layouts)]
            before, after = [], []
            if layout == "noterm":
                probe = T.render(b["hist"], sd, nm=nm, layout="oneline")
                if probe.count("(") != probe.count(")"):
                    layout = "multiline"      # a parenthesis inside a literal: without `;` the statement boundary is found by counting them
            if layout == "noterm":
                before, after = ["t0"], ["t2", "t3"]          # the next CREATE is what ends a statement
            elif extra_tables:
                k = h % 3
                before = ["t0"] if k >= 1 else []
                after = ["t2"] if k == 2 else []
            focus = T.render(b["hist"], sd, nm=nm, layout=layout)
            if extra_tables and layout != "noterm" and h % 7 == 3:
                # the table is declared a second time, IF NOT EXISTS, after an earlier declaration of the same name: both are reported
                before = before + ["t1"]
                focus = focus.replace("CREATE TABLE t1", "CREATE TABLE IF NOT EXISTS t1", 1)
            stmts = [T.lay_out(n, NEIGH[n], layout) for n in before] + [focus] + \
                    [T.lay_out(n, NEIGH[n], layout) for n in after]
            tasks.append(("\n".join(stmts) + "\n", ctor or {}, run or {}))
            meta.append((b, sd, nm, before, after, layout))
    outs, nuniq = C.parse_many(tasks)
    nbad = 0
    for (b, sd, nm, before, after, layout), tk, o in zip(meta, tasks, outs):
        exp = keep(T.expected(b["obs"], b["open"], nm))
        want_names = before + ["t1"] + after       # (before may end with an earlier declaration of t1 itself)
        paths, got = [], None
        if o[0] != "ok":
            paths, got = ["raised"], list(o[:3])
        else:
            tabs = [e for e in o[1] if "table_name" in e]
            if [t["table_name"] for t in tabs] != want_names:
                paths, got = ["tables"], [t.get("table_name") for t in tabs]
            else:
                raw = tabs[len(before)]
                got = keep(T.project_table(raw, b["open"], nm))
                paths = C.diff_paths(exp, got)
                for ti, t in enumerate(tabs):
                    n = t["table_name"]
                    if ti != len(before) and n in NEIGH and [c["name"] for c in t["columns"]] != [x.split()[0] for x in NEIGH[n]]:
                        paths.append("neighbour_" + n)
                if "t2" in after and [c["nullable"] for c in tabs[len(before) + 1]["columns"]] != [False, True]:
                    paths.append("neighbour_t2")
        if paths:
            nbad += 1
            V.mismatch({"what": what, "ddl": tk[0], "ctor": tk[1], "run": tk[2], "abstract": abstract(b), "paths": paths[:8], "layout": layout,
                        "names": nm, "open": list(b["open"]), "expected": exp, "observed": got, "spec_dev": sorted(spec_tags(b))},
                       tags=spec_tags(b), paths=[re.sub(r"\.\d+", ".*", p) for p in paths])
    return len(tasks), nuniq, nbad


def replay_file(path, keep):
    d = json.load(open(path))
    bad = 0
    for v in d["violations"]:
        o = C.jnorm(C._do_parse((v["ddl"], v.get("ctor", {}), v.get("run", {}))))
        ok = False
        if o[0] == "ok":
            tabs = [e for e in o[1] if e.get("table_name") == "t1"]
            if tabs:
                ok = keep(T.project_table(tabs[0], v.get("open", ()), v.get("names"))) == v["expected"]
        print(("passes now  " if ok else "STILL-FAILS ") + v["ddl"].replace("\n", " | ")[:220])
        bad += not ok
    return 1 if bad else 0
