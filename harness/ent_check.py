"""Shared driver for the properties decided by spec/Entities.tla (C17, C18)."""
from . import common as C
from . import entities as E

INV = ["OneKeyPerOption", "SeqModeLocal"]
PROPS = ["NoLeak", "OneEntityExact"]
ALLG = ["increment", "start", "minvalue", "maxvalue", "cache", "order"]


def consts(groups=ALLG, **kw):
    d = dict(Groups="{" + ", ".join(f'"{g}"' for g in groups) + "}", Forms=E.tla_forms(groups), Values='{"v1"}', MaxOpts=3, MaxStmts=1,
             Kinds="{}", WithTable="FALSE", ResetSeq="TRUE", WithHist="FALSE")
    d.update(kw)
    return d


def mc(cs, what, expect=None, timeout=900, simulate=None, depth=None, seed=None):
    hist = cs["WithHist"] == "TRUE"
    invs, props = INV + (["Emit"] if hist else []), PROPS
    if expect:
        invs, props = ([expect], []) if expect in INV else ([], [expect])
    r = C.run_tlc_wrapped("Entities", cs, dict(spec="Spec", invariants=invs, properties=props, view=None if hist else "View"),
                          workers=1 if hist else C.NCPU, timeout=timeout, simulate=simulate, depth=depth, seed=seed)
    if expect:
        if expect not in r.violated:
            raise C.MachineryError(f"negative control {what}: TLC no longer refutes {expect} (violated={r.violated})\n{r.tail[-600:]}")
    else:
        C.require_tlc_ok(r, what)
    return r


def compare(V, behs, seeds, what, ctor=None, run=None):
    tasks, meta = [], []
    for b in behs:
        if not b["hist"]:
            continue
        for sd in seeds:
            text, exp = E.render(b["hist"], sd)
            if (len(tasks) + sd) % 2 == 1:
                text = text.replace("\n", "\r\n")        # the same script with CRLF line ends (passed as a str)
            if (run or {}).get("output_mode") == "bigquery":
                # bigquery mode reports a non-empty schema of a sequence / type / domain under `dataset`
                exp = [(k_, ({("dataset" if kk == "schema" and vv else kk): vv for kk, vv in e_.items()} if k_ in ("sequence", "type", "domain") else e_), x_, t_)
                       for (k_, e_, x_, t_) in exp]
            tasks.append((text, ctor or {}, run or {}))
            meta.append((b, exp))
    outs, nuniq = C.parse_many(tasks)
    nbad = 0
    for (b, exp), tk, o in zip(meta, tasks, outs):
        tags = {t for (_, _, _, t) in exp if t}
        paths = []
        got = None
        if o[0] != "ok":
            paths, got = ["raised"], list(o[:3])
        else:
            got = [e for e in o[1] if "comments" not in e]
            # align expected and reported entities: a listed finding may make one declaration yield nothing
            use = exp
            if len(got) != len(exp):
                paths = ["count"]
                # a declaration whose form is a listed finding may yield nothing: the REST must still be exact
                rest = [x for x in exp if x[3] != "domain_sizeless"]
                if len(rest) == len(got) and len(rest) != len(exp):
                    use = rest
                else:
                    use = []
                    paths.append("count_unexplained")
            for i, ((kind, e, exact, tg), g) in enumerate(zip(use, got)):
                # a difference on an entity whose own form carries no deviation tag can never be attributed to a listed finding
                paths += [f"{'ents' if tg else 'untagged'}.{i}.{p}" for p in E.compare_entity(kind, e, exact, g)]
        if paths:
            nbad += 1
            V.mismatch({"what": what, "ddl": tk[0], "ctor": tk[1], "run": tk[2], "paths": paths[:8],
                        "expected": [e for (_, e, _, _) in exp], "observed": got, "spec_dev": sorted(tags)},
                       tags=tags, paths=[__import__("re").sub(r"\.\d+", ".*", p) for p in paths])
    return len(tasks), nuniq, nbad
