"""Word records, statement templates and the token-by-token driver for spec/Lexer.tla (layer X)."""
import re
import sys

from . import common as C


def tables():
    """the keyword tables of the WORKING TREE's tokens.py"""
    lib = C._import_lib()
    from simple_ddl_parser import tokens as tok
    return {"def": dict(tok.definition_statements), "com": dict(tok.common_statements), "col": dict(tok.columns_definition),
            "first": dict(tok.first_liners), "after": dict(tok.after_columns_tokens), "seq": dict(tok.sequence_reserved),
            "alt": dict(tok.alter_tokens)}


def word(v, tb, rule=None):
    up = v.upper()
    if rule is None:
        if v.startswith('"') and v.endswith('"') and len(v) > 1:
            rule = "DQ"
        elif v.startswith("'"):
            rule = "STRING"
        elif v == ".":
            rule = "DOT"
        elif re.fullmatch(r"(?i)collate", v):
            rule = "COLLATE"
        elif re.fullmatch(r"(?i)auto_increment|autoincrement", v):
            rule = "AUTOINC"
        else:
            rule = "ID"
    return {"v": v, "up": up, "rule": rule, "def": tb["def"].get(up, ""), "com": tb["com"].get(up, ""), "col": tb["col"].get(up, ""),
            "first": tb["first"].get(up, ""), "after": tb["after"].get(up, ""), "seq": tb["seq"].get(up, ""),
            "nlt": v.count("<"), "ngt": v.count(">"), "arr": v.startswith("ARRAY")}


def tla_word(w):
    def s(x):
        return '"' + x.replace("\\", "\\\\").replace('"', '\\"') + '"'
    return ("[v |-> %s, up |-> %s, rule |-> %s, def |-> %s, com |-> %s, col |-> %s, first |-> %s, after |-> %s, seq |-> %s, nlt |-> %d, ngt |-> %d, arr |-> %s]"
            % (s(w["v"]), s(w["up"]), s(w["rule"]), s(w["def"]), s(w["com"]), s(w["col"]), s(w["first"]), s(w["after"]), s(w["seq"]), w["nlt"], w["ngt"],
               "TRUE" if w["arr"] else "FALSE"))


def tla_slot(kind, words):
    return '[kind |-> "%s", words |-> {%s}]' % (kind, ", ".join(tla_word(w) for w in words))


def tla_template(slots):
    return "<<" + ", ".join(tla_slot(k, ws) for k, ws in slots) + ">>"


def signature_classes(tb):
    """one representative keyword per membership signature (+ the words the code tests by name)"""
    allw = set()
    for t in tb.values():
        allw |= {k for k in t if k != ","}
    special = {"IF", "TABLESPACE", "SEQUENCE", "CHECK", "ALTER", "LIKE", "TYPE", "DOMAIN", "TABLE", "INDEX", "SCHEMA", "DATABASE", "CONSTRAINT", "EXISTS",
               "COLLATE", "AUTOINCREMENT", "ARRAY"}
    cls = {}
    for w in sorted(allw):
        sig = tuple(w in tb[t] for t in ("def", "com", "col", "first", "after", "seq", "alt"))
        cls.setdefault(sig, []).append(w)
    reps = sorted({ws[0] for ws in cls.values()} | (special & allw))
    return reps, cls, sorted(allw)


def lex_real(text):
    """drive the real lexer token by token -> list of (type, value, flags)"""
    lib = C._import_lib()
    p = lib.DDLParser("")
    p.set_default_flags_in_lexer()
    p.lexer.input(p.pre_process_data(text.encode("unicode_escape")))
    out = []
    while True:
        try:
            t = p.lexer.token()
        except BaseException as e:  # noqa
            out.append(("ERROR", type(e).__name__, {}))
            break
        if t is None:
            break
        lx = p.lexer
        out.append((t.type, t.value, {"is_table": bool(lx.is_table), "sequence": bool(lx.sequence), "columns_def": bool(lx.columns_def),
                                      "after_columns": bool(lx.after_columns), "check": bool(lx.check), "lp_open": int(lx.lp_open),
                                      "is_alter": bool(lx.is_alter), "is_like": bool(lx.is_like), "lt_open": int(lx.lt_open)}))
    return out
