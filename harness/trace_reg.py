"""Code -> spec: record the `Apply` events of Output.format and have TLC validate them against spec/TraceRegistry.tla."""
from . import common as C
from . import tracecheck as T


def _tid(pair):
    return f"{pair[0]}|{pair[1]}"


def _record(task):
    text, ctor, run = task
    lib = C._import_lib()
    _verif = C.hooks()
    ev = []
    _verif.sink = ev.append
    try:
        try:
            lib.DDLParser(text, **ctor).run(**run)
        except BaseException:  # noqa
            pass
    finally:
        _verif.sink = None
    out = []
    for e in ev:
        if e["event"] == "StartRun":
            out = []
        elif e["event"] == "Apply":
            out.append({"kind": e["kind"], "target": _tid(e["target"]), "n": int(e["n_entities"]),
                        "tables": [_tid(t) for t in e["table_ids"]],
                        "cols": {k.replace("|None", "|None"): [str(x) for x in v] for k, v in e["columns"].items()}})
    return out


def record(scripts):
    return C.pool().map(_record, scripts, 8)


def validate(traces):
    keep = [(i, t) for i, t in enumerate(traces) if t]
    if not keep:
        return 0, [], None
    acc, rej, r = T.validate("TraceRegistry", [{"ev": t} for _, t in keep], {}, strict=True, invariants=("TInv",))
    return len(acc), [(keep[p["tid"] - 1][0], p.get("line")) for p in rej if p.get("tid")], r
