"""Binding of spec/Lifecycle.tla to the real library.

spec -> code : replay TLC-enumerated interleavings with one real thread per parser object,
               driven through the guarded yield points in exactly the order TLC prescribes;
code -> spec : record the library's own events (sink) and have TLC validate them against the
               contract configuration (TraceLifecycle.tla).
Must run in a process where SIMPLE_DDL_PARSER_VERIF=1 was set before the library is imported.
"""
import ast
import json
import os
import subprocess
import sys
import threading

from . import common as C

BLOCKING = {"start", "lexer_built", "before_run", "parse_stmt"}


def lib():
    os.environ[C.GUARD] = "1"
    m = C._import_lib()
    from simple_ddl_parser import _verif
    if not _verif.ENABLED:
        raise C.MachineryError("hooks are not enabled in this process")
    return m, _verif


# ---------------------------------------------------------------------------
# object programmes: script text, constructor flags
# ---------------------------------------------------------------------------
QUOTE = {"a": '"%s"', "b": "[%s]", "c": "`%s`"}
FLAGS = {"a": dict(normalize_names=True), "b": dict(silent=False), "c": dict(normalize_names=False, silent=True)}
SILENT_OBJS = ["a", "c"]
# model constants per programme variant
VARIANTS = {
    0: dict(BadLast=[], ForeignAlter=[]),
    1: dict(BadLast=["a", "b", "c"], ForeignAlter=[]),
    2: dict(BadLast=[], ForeignAlter=["b"]),
}


def programme(name, nstmt, variant):
    """A script with exactly `nstmt` statements that reach the grammar, one trailing comment each.
    The objects differ in input, quoting style and constructor flags; the variant decides whether the
    last statement is unparseable (BadLast) or alters a table defined only in object a's script."""
    quote, flags = QUOTE[name], FLAGS[name]
    lines = []
    for k in range(1, nstmt + 1):
        t = quote % f"T_{name}{k}"
        col = quote % f"c_{name}{k}"
        last = k == nstmt
        if last and name in VARIANTS[variant]["BadLast"]:
            lines.append(f"CREATE TABLE {t} ({col} int, PRIMARY); -- comment {name}{k}")
        elif last and name in VARIANTS[variant]["ForeignAlter"]:
            lines.append(f"ALTER TABLE {quote % 'T_a1'} ADD UNIQUE ({quote % 'c_a1'}); -- comment {name}{k}")
        elif last and nstmt > 1 and name == "b":
            # an ALTER whose effect lands in the object's own first table (registry state inside one run)
            lines.append(f"ALTER TABLE {quote % f'T_{name}1'} ADD UNIQUE ({quote % f'c_{name}1'}); -- comment {name}{k}")
        else:
            lines.append(f"CREATE TABLE {t} ({col} varchar(1{k}) NOT NULL, x{k} int DEFAULT {k}); -- comment {name}{k}")
    return "\n".join(lines) + "\n", flags


ARGS = {"A1": {}, "A2": {"output_mode": "hql"}, "A3": {"group_by_type": True},
        "A4": {"output_mode": "bigquery", "json_dump": True}}


def outcome(fn):
    try:
        return ["ok", fn()]
    except BaseException as e:  # noqa
        return ["exc", type(e).__name__, [c.__name__ for c in type(e).__mro__][:4]]


def exc_of(out):
    return "no" if out[0] == "ok" else out[1]


SOLO_SRC = r'''
import sys, json
sys.path.insert(0, %r)
import logging; logging.disable(logging.CRITICAL)
from simple_ddl_parser import DDLParser
from simple_ddl_parser.output.core import Output
import copy
jobs = json.load(sys.stdin)
out = []
for text, flags, args in jobs:
    try:
        r = ["ok", DDLParser(text, **flags).run(**args)]
    except BaseException as e:
        r = ["exc", type(e).__name__, [c.__name__ for c in type(e).__mro__][:4]]
    out.append(r)
json.dump(out, sys.stdout)
'''


def solo_results(jobs):
    """each job in a fresh interpreter state?  One throw-away process; every object is constructed and
    run immediately, which is the one history on which even the global-binding defect is harmless."""
    env = dict(os.environ)
    env.pop(C.GUARD, None)
    p = subprocess.run([C.PY, "-c", SOLO_SRC % C.REPO], input=json.dumps(jobs), text=True,
                       stdout=subprocess.PIPE, stderr=subprocess.PIPE, env=env, cwd="/")
    if p.returncode != 0:
        raise C.MachineryError("solo oracle process failed: " + p.stderr[-1500:])
    return json.loads(p.stdout)


# ---------------------------------------------------------------------------
# deterministic scheduler
# ---------------------------------------------------------------------------
class Sched:
    def __init__(self, names):
        self.cv = threading.Condition()
        self.turn = None
        self.at = {n: None for n in names}
        self.events = []
        self.elock = threading.Lock()

    # called from object threads -------------------------------------------------
    def yield_point(self, tag, obj=None):
        if tag not in BLOCKING:
            return
        me = threading.current_thread().name
        if me not in self.at:
            return
        with self.cv:
            self.at[me] = tag
            self.turn = None
            self.cv.notify_all()
            if not self.cv.wait_for(lambda: self.turn == me, timeout=60):
                raise C.MachineryError("scheduler: thread %s starved at %s" % (me, tag))

    def finished(self):
        me = threading.current_thread().name
        with self.cv:
            self.at[me] = "done"
            self.turn = None
            self.cv.notify_all()

    def sink(self, ev):
        ev["o"] = threading.current_thread().name
        with self.elock:
            self.events.append(ev)

    # called from the driver --------------------------------------------------------
    def wait_parked(self, names):
        with self.cv:
            if not self.cv.wait_for(lambda: all(self.at[n] is not None for n in names) and self.turn is None, timeout=60):
                raise C.MachineryError("scheduler: threads did not park")

    def grant(self, name):
        with self.cv:
            if self.at[name] == "done":
                return "done"
            self.turn = name
            self.cv.notify_all()
            if not self.cv.wait_for(lambda: self.turn is None, timeout=60):
                raise C.MachineryError("scheduler: %s did not come back" % name)
            return self.at[name]


def _obj_thread(sched, text, flags, runs, out):
    m, _ = lib()
    try:
        sched.yield_point("start")
        try:
            p = m.DDLParser(text, **flags)
        except BaseException as e:  # noqa
            out.append(["ctor-exc", type(e).__name__])
            return
        for a in runs:
            sched.yield_point("before_run")
            r = outcome(lambda: p.run(**a))
            out.append(r)
            sched.sink({"event": "RunEnd", "exc": exc_of(r), "result": repr(r[1]) if r[0] == "ok" else ""})
    finally:
        sched.finished()


def replay_schedule(hist, progs, runs_args):
    """hist: list of {a,o,arg} from TLC.  progs: name -> (text, flags).  runs_args: name -> list of run kwargs.
    Returns (results per object, events, drift notes)."""
    m, V = lib()
    names = sorted(progs)
    sched = Sched(names)
    outs = {n: [] for n in names}
    V.sink = sched.sink
    V.scheduler = sched.yield_point
    threads = [threading.Thread(target=_obj_thread, name=n, args=(sched, progs[n][0], progs[n][1], runs_args[n], outs[n]),
                                daemon=True) for n in names]
    drift = []
    try:
        for t in threads:
            t.start()
        sched.wait_parked(names)
        for step in hist:
            o, a = step["o"], step["a"]
            st = sched.at[o]
            if a == "FinishRun":
                if st not in ("before_run", "done"):
                    drift.append(f"FinishRun({o}) but thread is at {st}")
                continue
            expect = {"BuildLexer": "start", "BuildParser": "lexer_built", "StartRun": "before_run",
                      "ParseStmt": "parse_stmt"}[a]
            if st == "done":
                continue  # the object already ended (exception); remaining grants are no-ops
            if st != expect:
                drift.append(f"{a}({o}) expected thread at {expect}, found {st}")
            sched.grant(o)
        # let every thread run to completion
        for n in names:
            guard = 0
            while sched.at[n] != "done" and guard < 50:
                sched.grant(n)
                guard += 1
        for t in threads:
            t.join(timeout=30)
    finally:
        V.sink = None
        V.scheduler = None
    return outs, sched.events, drift


def free_run(progs, runs_args, switch=1e-6):
    """Concurrent construct+run with real pre-emption (tiny switch interval); events recorded in sink order."""
    m, V = lib()
    names = sorted(progs)
    sched = Sched(names)
    outs = {n: [] for n in names}
    V.sink = sched.sink
    V.scheduler = None
    old = sys.getswitchinterval()
    sys.setswitchinterval(switch)
    barrier = threading.Barrier(len(names))

    def body(n):
        barrier.wait()
        try:
            p = m.DDLParser(progs[n][0], **progs[n][1])
        except BaseException as e:  # noqa
            outs[n].append(["ctor-exc", type(e).__name__])
            return
        for a in runs_args[n]:
            r = outcome(lambda: p.run(**a))
            outs[n].append(r)
            sched.sink({"event": "RunEnd", "exc": exc_of(r), "result": repr(r[1]) if r[0] == "ok" else ""})

    try:
        ts = [threading.Thread(target=body, name=n, args=(n,), daemon=True) for n in names]
        for t in ts:
            t.start()
        for t in ts:
            t.join(timeout=60)
    finally:
        sys.setswitchinterval(old)
        V.sink = None
    return outs, sched.events


# ---------------------------------------------------------------------------
# events -> trace records for TraceLifecycle.tla
# ---------------------------------------------------------------------------
class DigestIds:
    def __init__(self):
        self.ids = {}

    def __call__(self, x):
        d = C.digest(x)
        return self.ids.setdefault(d, len(self.ids) + 1)


def n_comments_of(result):
    if isinstance(result, str):
        try:
            result = json.loads(result)
        except Exception:
            return -1
    if isinstance(result, dict):
        return len(result.get("comments", []))
    if isinstance(result, list):
        for e in result:
            if isinstance(e, dict) and "comments" in e:
                return len(e["comments"])
        return 0
    return -1


def to_trace(events, did):
    """library events -> the record shape TraceLifecycle expects"""
    tr = []
    for e in events:
        k = e["event"]
        if k in ("Line", "Apply"):
            continue
        rec = {"event": k, "o": e["o"], "digest": 0, "ncomments": 0, "glexer_mine": True, "gparse_mine": True,
               "rdigest": 0, "exc": "no", "c_comments": False, "c_block": False, "c_stmt": False}
        if k == "StartRun":
            rec["ncomments"] = e["n_comments"]
            rec["c_comments"] = e["n_comments"] > 0
            rec["c_block"] = e["n_block"] > 0
            rec["c_stmt"] = e["pending"] is not None
        elif k == "ParseStmt":
            rec["digest"] = did(e["result"])
            rec["glexer_mine"] = bool(e["glexer_is_mine"])
            rec["gparse_mine"] = bool(e["gparse_is_mine"])
        elif k == "FinishRun":
            try:
                val = ast.literal_eval(e["result"])
            except Exception:
                val = e["result"]
            rec["ncomments"] = n_comments_of(val)
            rec["rdigest"] = did(e["result"])
        elif k == "RunEnd":
            rec["exc"] = e["exc"]
            rec["rdigest"] = did(e["result"]) if e["exc"] == "no" else 0
        tr.append(rec)
    return tr


def solo_trace_tables(progs, runs_args):
    """Per object: per-statement result reprs and whole-run repr when it is alone in a process, obtained from
    the library's own events in a throw-away process (guard on)."""
    src = r'''
import sys, json, os
os.environ[%r] = "1"
sys.path.insert(0, %r)
import logging; logging.disable(logging.CRITICAL)
from simple_ddl_parser import DDLParser, _verif
jobs = json.load(sys.stdin)
out = {}
for name, (text, flags, args) in jobs.items():
    ev = []
    _verif.sink = ev.append
    try:
        DDLParser(text, **flags).run(**args)
    except BaseException:
        pass
    _verif.sink = None
    out[name] = {"stmts": [e["result"] for e in ev if e["event"] == "ParseStmt"],
                 "run": [e["result"] for e in ev if e["event"] == "FinishRun"]}
json.dump(out, sys.stdout)
''' % (C.GUARD, C.REPO)
    jobs = {n: (progs[n][0], progs[n][1], runs_args[n][0]) for n in progs}
    p = subprocess.run([C.PY, "-c", src], input=json.dumps(jobs), text=True, stdout=subprocess.PIPE,
                       stderr=subprocess.PIPE, cwd="/")
    if p.returncode != 0:
        raise C.MachineryError("solo trace process failed: " + p.stderr[-1500:])
    return json.loads(p.stdout)
