"""C03 Statements of a script are parsed independently and reported in order.

Decided by spec/Assembler.tla (SubmittedExact: at every statement boundary the grammar has received exactly the complete
statements, whole and in order; CleanBoundary: no assembler state crosses a boundary; SetsEmitted), by Registry.tla's
OrderKept (entities only appended) and Entities.tla's SeqModeLocal (lexer mode confined to its statement): model-checked
over every sequence of <= 3 (4) statements drawn from 16 statement shapes - tables, sequences, ALTER, views, queries,
DML, GRANT, GO, SET, DROP, one to three lines each - i.e. supported statements in every order with unsupported ones at
every position.  Every complete behaviour is rendered (with and without a final line break) and parsed by the real
library: the result must be the in-order concatenation of what TLC lists for each statement alone (ALTER merged into its
table), whatever precedes or follows.  The regression corpus supplies real statements: every script made only of
`;`-terminated CREATE statements must equal the concatenation of its statements parsed alone.
"""
import json
import random
import re
import time

from .. import common as C
from .. import assembler as A
from .. import asm_check as F
from .. import corpus as CP
from . import c04
from .. import ent_check as EF

PID = "C03"
SK = [("table", 1), ("table", 2), ("table", 3), ("seq", 1), ("seq", 2), ("alter", 1), ("alter", 2), ("view", 1), ("view", 2), ("ext", 1), ("unsup", 1), ("unsup", 2),
      ("unsup", 3), ("insert", 1), ("insert", 2), ("upsert", 2), ("grant", 1), ("go", 1), ("set", 1), ("drop", 1), ("serde", 1), ("alter_rn", 1)]


def alone_results(behs):
    """every table / sequence statement of the behaviours parsed ALONE: text -> the entity it yields (C03: `what each statement yields when parsed alone`)"""
    texts = {}
    for b in behs:
        ft = A.first_table_of(b["stmts"])
        for i, s_ in enumerate(b["stmts"], 1):
            if s_["k"] in ("table", "serde", "seq"):
                texts["\n".join(A.pieces(i, s_["k"], s_["n"], ft)) + "\n"] = None
    keys = sorted(texts)
    outs, _ = C.parse_many([(t, {}, {}) for t in keys])
    for t, o in zip(keys, outs):
        ents = [e for e in o[1] if "comments" not in e] if o[0] == "ok" else None
        texts[t] = ents[0] if ents and len(ents) == 1 else None
    return texts


def judge(V, behs, res, what, nl):
    nbad = ndrift = 0
    alone = alone_results(behs)
    for b, (text, out, subs) in zip(behs, res):
        tags = set(F.spec_tags(b))
        if F.drift(b, subs, 0) and nl:
            ndrift += 1
        paths, got = [], None
        exp = A.expected_entities(b, b["stmts"])
        nset = b["nset"]
        if out[0] != "ok":
            paths, got = ["raised"], out[1:3]
        else:
            ents, _ = A.project_entities(out[1])
            e2 = [e for e in ents if e["kind"] != "set"]
            sets = [e for e in ents if e["kind"] == "set"]
            if e2 != exp:
                paths.append("entities")
            want_sets = [{"kind": "set", "name": f"opt{i}", "value": str(i)} for i, s in enumerate(b["stmts"], 1) if s["k"] == "set"]
            if sets != want_sets:
                paths.append("ddl_properties")
            # relative order of ddl_properties and the other entities
            order = [e["name"] for e in ents if e["kind"] in ("set", "table", "sequence")]
            want_order = []
            for i, s in enumerate(b["stmts"], 1):
                if s["k"] == "set":
                    want_order.append(f"opt{i}")
                elif s["k"] in ("table", "serde"):
                    want_order.append(f"t{i}")
                elif s["k"] == "seq":
                    want_order.append(f"sq{i}")
            if not paths and order != want_order:
                paths.append("order")
            if not paths and not tags:
                # the whole entity, not only its projection: equal to what the statement yields alone (tables named by an ALTER of the script excepted)
                ft = A.first_table_of(b["stmts"])
                altered = ft if any(s_["k"] in ("alter", "alter_rn") for s_ in b["stmts"]) else None
                byname = {}
                for e in out[1]:
                    nm = e.get("table_name") or e.get("sequence_name")
                    if nm:
                        byname.setdefault(nm, []).append(e)
                for i, s_ in enumerate(b["stmts"], 1):
                    if s_["k"] in ("table", "serde", "seq") and i != altered:
                        want = alone.get("\n".join(A.pieces(i, s_["k"], s_["n"], ft)) + "\n")
                        have = byname.get(("sq" if s_["k"] == "seq" else "t") + str(i), [])
                        if want is not None and (len(have) != 1 or C.jnorm(have[0]) != C.jnorm(want)):
                            paths.append("differs_from_alone")
                            break
            got = ents
        if paths:
            nbad += 1
            V.mismatch({"what": what, "ddl": text, "paths": paths, "expected": exp, "observed": got, "spec_dev": sorted(tags)}, tags=tags, paths=paths)
    return ndrift, nbad


STMT_START = re.compile(r"^\s*(CREATE|ALTER|DROP|SET|GO|USE|INSERT|GRANT|DELETE)\b", re.I)


def split_script(text):
    """-> list of `;`-terminated statements (each a block of whole lines) or None if the script is outside C03's domain"""
    if "/*" in text or "--" in text or "#" in text or "'" in text and ";" in "".join(re.findall(r"'[^']*'", text)):
        return None
    lines = text.split("\n")
    stmts, cur = [], []
    for ln in lines:
        if not ln.strip():
            continue
        if cur and STMT_START.match(ln):
            return None           # a statement-level word inside a statement / an unterminated statement
        cur.append(ln)
        if ln.rstrip().endswith(";"):
            stmts.append("\n".join(cur))
            cur = []
    if cur:
        return None
    return stmts


def corpus_check(V, thorough, rnd):
    corp = CP.harvest()
    cands = []
    for i, r in enumerate(corp):
        st = split_script(r["text"])
        if not st or len(st) < 2:
            continue
        if not all(re.match(r"^\s*CREATE\s+(OR\s+REPLACE\s+)?(TABLE|SEQUENCE|TYPE|DOMAIN|SCHEMA|DATABASE|TABLESPACE|EXTERNAL\s+TABLE|TEMPORARY\s+TABLE)\b", s, re.I) for s in st):
            continue
        cands.append((i, r, st))
    tasks = []
    for i, r, st in cands:
        tasks.append((r["text"], r["ctor"], {}))
        for s in st:
            tasks.append((s + "\n", r["ctor"], {}))
        if thorough and len(st) <= 4:
            tasks.append(("\n".join(reversed(st)) + "\n", r["ctor"], {}))
    outs, _ = C.parse_many(tasks)
    k = 0
    n = 0
    for i, r, st in cands:
        whole = outs[k]
        solos = outs[k + 1:k + 1 + len(st)]
        k += 1 + len(st)
        rev = None
        if thorough and len(st) <= 4:
            rev = outs[k]
            k += 1
        if whole[0] != "ok" or any(s[0] != "ok" for s in solos):
            continue
        n += 1
        cat = [e for s in solos for e in s[1] if "comments" not in e]
        got = [e for e in whole[1] if "comments" not in e]
        if cat != got:
            V.mismatch({"what": "corpus", "ddl": r["text"][:1500], "problem": "script result is not the concatenation of its statements parsed alone",
                        "paths": C.diff_paths(cat, got)[:6]}, paths=["corpus_concat"])
        if rev is not None and rev[0] == "ok":
            rcat = [e for s in reversed(solos) for e in s[1] if "comments" not in e]
            if rcat != [e for e in rev[1] if "comments" not in e]:
                V.mismatch({"what": "corpus reversed", "ddl": "\n".join(reversed(st))[:1500], "problem": "reversed script is not the reversed concatenation"},
                           paths=["corpus_concat"])
    return n


# hand scripts (lists of statements) outside the generators' shapes: the script's result is the concatenation of its statements parsed alone
HAND = [
    # a table declared again (IF NOT EXISTS, other letter case / quoting, after a DROP): every statement is reported, as when alone
    ["CREATE TABLE u1 (a int);", "CREATE TABLE IF NOT EXISTS u1 (a int, b int);", "CREATE TABLE IF NOT EXISTS U1 (c int);", 'CREATE TABLE IF NOT EXISTS "u1" (d int);'],
    ["DROP TABLE t9;", "CREATE TABLE IF NOT EXISTS t9 (a int, b varchar(5));", "CREATE SEQUENCE sq9 START 1;"],
    ["CREATE TABLE s1.t9 (a int);", "CREATE TABLE IF NOT EXISTS s2.t9 (b int);", "CREATE TABLE IF NOT EXISTS s1.t9 (c int);", "CREATE TABLE s1.t9 (d int);"],
    ["CREATE SEQUENCE sq1 START 1;", "CREATE SEQUENCE IF NOT EXISTS sq1 START 5;", "CREATE SCHEMA IF NOT EXISTS sc1;", "CREATE SCHEMA IF NOT EXISTS sc1;"],
    # one statement with an unpaired quote character (an escaped quote), literals with separators in the statements after it
    ["CREATE TABLE a1 (n varchar(20) DEFAULT 'user\\'s note', z int);", "CREATE TABLE b1 (id int, m varchar(5), PRIMARY KEY (id, m));",
     "CREATE TABLE c1 (id int, k varchar(9) DEFAULT 'xy', j decimal(5,2));", "CREATE TABLE d1 (q int, r int);"],
    ["INSERT INTO lg VALUES (1, 'user\\'s note');", "CREATE TABLE b2 (id int, m varchar(5), UNIQUE (id, m));", "CREATE TABLE c2 (id int, k varchar(9) COMMENT 'k1');"],
    ["CREATE TABLE b3 (id int, m decimal(10,2));", "CREATE TABLE a3 (n varchar(20) COMMENT 'it\\'s');", "CREATE TABLE c3 (id int, k varchar(9) DEFAULT 'v', w numeric(4,1));"],
]


def hand_check(V):
    tasks = []
    for st in HAND:
        tasks.append(("\n".join(st) + "\n", {}, {}))
        tasks += [(s_ + "\n", {}, {}) for s_ in st]
    outs, _ = C.parse_many(tasks)
    k = n = 0
    for st in HAND:
        whole, solos = outs[k], outs[k + 1:k + 1 + len(st)]
        k += 1 + len(st)
        if whole[0] != "ok" or any(s_[0] != "ok" for s_ in solos):
            V.mismatch({"what": "hand script", "ddl": "\n".join(st), "problem": "raised", "whole": whole[:3] if whole[0] != "ok" else "ok"}, paths=["hand_raised"])
            continue
        n += 1
        cat = [e for s_ in solos for e in s_[1] if "comments" not in e]
        got = [e for e in whole[1] if "comments" not in e]
        if cat != got:
            V.mismatch({"what": "hand script", "ddl": "\n".join(st), "problem": "script result is not the concatenation of its statements parsed alone",
                        "paths": C.diff_paths(cat, got)[:6]}, paths=["hand_concat"])
    return n


def run(tier, seed):
    t0 = time.time()
    F.guard_on()
    rnd = random.Random(seed)
    V = C.Verdict(PID)
    thorough = tier == "thorough"
    cov = {"model_checked": [], "generation": []}
    states = trans = 0
    cfgs = [("<=3 statements of 20 shapes", F.consts(SK, MaxStmts=3))]
    if thorough:
        cfgs.append(("<=4 statements of 10 shapes", F.consts([s for s in SK if s[1] == 1 or s[0] in ("table", "insert")], MaxStmts=4)))
    for what, cs in cfgs:
        r = F.mc(cs, what, timeout=1800)
        states += r.distinct
        trans += r.generated
        cov["model_checked"].append({"config": what, "distinct_states": r.distinct, "wall_s": round(r.wall, 1)})
    r = c04.mc(c04.consts(Universe=c04.U2, MaxStmts=4, Spells=c04.SS, Lean="TRUE", Others='{"sequence","ddl_property","schema"}'), "registry order")
    states += r.distinct
    trans += r.generated
    r = EF.mc(EF.consts(MaxOpts=1, MaxStmts=3, WithTable="TRUE", groups=["start", "cache"]), "lexer sequence mode")
    states += r.distinct
    trans += r.generated
    gd = c04.mc(c04.consts(WithHist="TRUE", Universe=c04.U1, MaxCreates=2, MaxStmts=5 if thorough else 4, Spells=c04.SS, DupCreates="TRUE", Lean="TRUE",
                           Kinds='{"addcol","unique","index"}'), "re-created table (generation)")
    nd_, _, ndb = c04.compare(V, gd.beh, [seed], "a table defined again: later ALTER / INDEX statements belong to the latest definition")
    cov["generation"].append({"config": "registry: table re-created between ALTER / INDEX statements", "behaviours": len(gd.beh), "mismatches": ndb})
    # the same sequences in every other output mode (a later ALTER must be merged whatever dialect class holds the table): each mode a slice, and
    # sequences of column-changing ALTERs on one table in all of them
    from .. import clauses as KM
    others = [m for m in KM.MODES if m != "sql"]
    gq = c04.mc(c04.consts(WithHist="TRUE", Universe=c04.U1, MaxCreates=1, MaxStmts=4, Spells=c04.SS, Kinds='{"addcol","drop","modify","fk"}', Lean="TRUE"),
                "ALTER sequences on one table (generation)")
    seqs = [b for b in gq.beh if len(b["hist"]) >= 3 and not b["err"]]
    seqs = seqs if thorough else rnd.sample(seqs, min(len(seqs), 140))
    nm_ = 0
    for i_, m_ in enumerate(others):
        n1_, _, b1_ = c04.compare(V, gd.beh[i_::len(others)], [seed], f"re-created table / {m_}", run={"output_mode": m_})
        n2_, _, b2_ = c04.compare(V, seqs, [seed], f"ALTER sequences / {m_}", run={"output_mode": m_})
        nm_ += n1_ + n2_
    cov["generation"].append({"config": "registry sequences in every output mode", "modes": others, "renderings": nm_})
    states += gq.distinct
    trans += gq.generated
    states += gd.distinct
    trans += gd.generated
    F.mc(F.consts([("table", 2), ("seq", 1)], MaxStmts=2, CmStyles='{"block3"}', MaxCm=1, Variant='"mlc_sticky"'), "state carried over", expect="CleanBoundary")
    EF.mc(EF.consts(MaxOpts=1, MaxStmts=2, WithTable="TRUE", ResetSeq="FALSE"), "sequence mode not reset", expect="SeqModeLocal")
    cov["negative_controls"] = ["Assembler Variant=mlc_sticky refutes CleanBoundary", "Entities ResetSeq=FALSE refutes SeqModeLocal"]
    total = nd_ + nm_
    drift = 0
    sample = None
    for what, cs in cfgs:
        g = F.mc(dict(cs, WithHist="TRUE"), "generation " + what, timeout=1800)
        behs = [b for b in g.beh if b["stmts"]]
        if not thorough and len(behs) > 7000:
            behs = rnd.sample(behs, 7000)
        for nl in (True, False):
            sub = behs if nl or thorough else rnd.sample(behs, min(len(behs), 2500))
            res = C.pool().map(F._replay, [(b, 0, {}, {}, nl) for b in sub], 32)
            nd, nb = judge(V, sub, res, what + ("" if nl else " / no final line break"), nl)
            drift += nd
            total += len(sub)
            cov["generation"].append({"config": what, "final_line_break": nl, "behaviours": len(g.beh), "replayed": len(sub), "mismatches": nb})
        if sample is None:
            b = next(x for x in behs if len(x["stmts"]) == 3)
            sample = {"statements": b["stmts"], "ddl": A.render(b, b["stmts"], 0), "expected": A.expected_entities(b, b["stmts"])}
    # code -> spec (drift channel): per-line events of the real assembler on the corpus, all fields
    from .. import trace_asm as TA
    corp = CP.harvest()
    traces = TA.record([(r["text"], r["ctor"]) for r in corp])
    nacc, rejs, rt = TA.validate(traces, strict=True)
    states += rt.distinct if rt else 0
    trans += rt.generated if rt else 0
    cov["corpus_traces"] = {"scripts": len(traces), "lines": sum(len(t) for t in traces), "accepted_all_fields": nacc,
                            "rejected (model drift, not a verdict)": [{"script": corp[i]["text"][:200], "line": ln} for i, ln, _ in rejs[:5]]}
    ncorp = corpus_check(V, thorough, rnd)
    cov["hand_scripts_compared_with_their_statements_parsed_alone"] = hand_check(V)
    cov["corpus_scripts_compared_with_their_statements_parsed_alone"] = ncorp
    # ---- the end-to-end composition (spec/System.tla): every script of <= 3 statements over 15 kinds, parse stage -> fold stage -> result
    from .. import sys_check as SY
    sc, ss, st, sn = SY.leg(V, tier, seed, "C03: <=3 statements of 15 kinds, silent, flat", SY.ALL_KINDS, MaxStmts=3, cap=20000 if thorough else 5000,
                            negative=("set_swallows_next", "OutcomeOK", {"MaxStmts": 2}),
                            sim={"consts": {"MaxStmts": 5}, "simulate": "num=3000", "depth": 40} if thorough else None)
    cov["system_composition"] = sc
    states += ss
    trans += st
    rc = V.finish()
    cov.update({"states": states, "transitions": trans, "traces_validated_against_impl": total + ncorp,
                "model_drift": {"behaviours_where_the_grammar_received_other_statements_than_the_model_submitted": drift},
                "samples": [sample], "exhaustive": thorough, "known_findings_met": V.hits})
    C.write_evidence(PID, tier, seed, cov, time.time() - t0, len(V.viol),
                     ["statement shapes are the pool in harness/assembler.py (distinct names per statement)", "corpus relation only for scripts made of "
                      "`;`-terminated CREATE statements without comments", "TLC, PLY, CPython trusted"])
    return rc


def replay(path):
    d = json.load(open(path))
    lib = C._import_lib()
    bad = 0
    for v in d["violations"]:
        if "expected" not in v:
            print("corpus case: " + v["ddl"][:100].replace("\n", " | "))
            bad += 1
            continue
        try:
            ents, _ = A.project_entities(C.jnorm(lib.DDLParser(v["ddl"]).run()))
            ok = [e for e in ents if e["kind"] != "set"] == v["expected"]
        except Exception:
            ok = False
        print(("passes now  " if ok else "STILL-FAILS ") + v["ddl"].replace("\n", " | ")[:200])
        bad += not ok
    return 1 if bad else 0
