"""C15 Parser objects do not interfere, sequentially or across threads.

Decided by spec/Lifecycle.tla (Isolation) model-checked by TLC; bound to the code by
 (A) replaying every TLC-enumerated interleaving with one real thread per object through the
     guarded yield points, comparing each run() with the object's solo result, and
 (B) validating the library's recorded events (replays + free-running threads) against the
     contract configuration with TraceLifecycle.tla.
"""
import json
import os
import random
import time

from .. import common as C
from .. import lifecycle as L
from .. import tracecheck as T

PID = "C15"


ACCS = ("comments", "block_comments", "statement", "multi_line_comment", "set_line")


def consts(objs, nstmt, maxruns, variant, *, binding="perobject", reset=ACCS, gran="stmt", hist=False,
           registry="perrun", args=("A1",), leaves=("comments",)):
    v = L.VARIANTS[variant]
    q = lambda xs: C.tla_set(['"%s"' % x for x in xs])
    return dict(Obj=q(objs), NStmt=nstmt, MaxRuns=maxruns, Args=q(args),
                SilentObjs=q([o for o in L.SILENT_OBJS if o in objs]),
                BadLast=q([o for o in v["BadLast"] if o in objs]),
                ForeignAlter=q([o for o in v["ForeignAlter"] if o in objs]),
                Binding='"%s"' % binding, Registry='"%s"' % registry,
                ResetSet=q(reset), Leaves=q(leaves), Granularity='"%s"' % gran,
                WithHist="TRUE" if hist else "FALSE")


INVS = ["TypeOK", "Isolation", "Repeatable"]
PROPS = ["NoAliasing", "AppendOnly"]


def mc(cs, what, expect_violation=None):
    r = C.run_tlc("Lifecycle", dict(spec="Spec", constants=cs, invariants=INVS + ["Emit"], properties=PROPS),
                  workers=C.NCPU if cs["WithHist"] == "FALSE" else 1)
    if expect_violation:
        if expect_violation not in r.violated:
            raise C.MachineryError(f"negative control {what}: TLC no longer refutes {expect_violation} "
                                   f"(violated={r.violated}) - the invariant has become vacuous\n{r.tail[-600:]}")
    else:
        C.require_tlc_ok(r, what)
    return r


def _replay_task(task):
    hist, objs, nstmt, variant, runs = task
    progs = {o: L.programme(o, nstmt, variant) for o in objs}
    runs_args = {o: [L.ARGS[a] for a in runs[o]] for o in objs}
    outs, events, drift = L.replay_schedule(hist, progs, runs_args)
    return C.jnorm(outs), events, drift


def _free_task(task):
    objs, nstmt, variant, nruns, k = task
    progs = {o: L.programme(o, nstmt, variant) for o in objs}
    runs_args = {o: [{}] * nruns for o in objs}
    outs, events = L.free_run(progs, runs_args)
    return C.jnorm(outs), events


def solo_table(objs, nstmt, variants, arg_names):
    jobs, keys = [], []
    for v in variants:
        for o in objs:
            text, flags = L.programme(o, nstmt, v)
            for a in arg_names:
                jobs.append((text, flags, L.ARGS[a]))
                keys.append((o, nstmt, v, a))
    res = L.solo_results(jobs)
    return dict(zip(keys, res))


# ---- call-level histories in FRESH interpreters (process-wide caches / prototypes show only for the first objects of a process) ----
FRESH_PROGS = {
    "a": ('CREATE TABLE apachelog (host STRING, ident STRING) ROW FORMAT SERDE \'org.apache.hadoop.hive.serde2.RegexSerDe\' '
          'WITH SERDEPROPERTIES ("input.regex" = "([^ ]*) ([^ ]*)") STORED AS TEXTFILE; -- ca\n', {}),
    "b": ("CREATE TABLE [dbo].[t_b] ([x] int, [y] varchar(5)) TBLPROPERTIES ('k1'='v1', 'k2'='v2'); -- cb\nCREATE SEQUENCE sq_b START 5;\n", {"normalize_names": True}),
    "c": ('CREATE TABLE "T_c" ("Id" int PRIMARY KEY); -- cc\nCREATE TABLE bad (x int, PRIMARY);\n', {"silent": False}),
    # objects that differ in their run() arguments / diagnostic flags (pair histories below)
    "d": ("CREATE EXTERNAL TABLE t_d (a string, b int) PARTITIONED BY (dt string) ROW FORMAT DELIMITED FIELDS TERMINATED BY ',' ESCAPED BY '\\\\' "
          "STORED AS TEXTFILE LOCATION 's3://b/d'; -- cd\n", {}, {"output_mode": "athena"}),
    "e": ("CREATE TABLE t_e (a int NOT NULL, b varchar(5) DEFAULT 'x', PRIMARY KEY (a)); -- ce\nALTER TABLE t_e ADD UNIQUE (b);\n", {"debug": True}, {"output_mode": "sql"}),
    "f": ("CREATE TABLE t_f (a int, b int) CLUSTER BY (a) DATA_RETENTION_TIME_IN_DAYS = 3; -- cf\nCREATE SEQUENCE sq_f START 2;\n", {}, {"output_mode": "snowflake", "group_by_type": True}),
    "g": ("CREATE TABLE t_g (a int, b int) ENGINE=InnoDB DEFAULT CHARSET=utf8; -- cg\n", {"normalize_names": True}, {"output_mode": "mysql", "json_dump": True}),
}
FRESH_PROGS.update({
    # two objects that use the SAME rare statement forms (kind words of CREATE .. SCHEMA, an ALTER / INDEX on a table created elsewhere)
    "h": ("CREATE REMOTE SCHEMA rs1;\nCREATE TRANSIENT SCHEMA tr1;\nCREATE TABLE rs1.t_h (a int); -- ch\nCREATE INDEX ix_h ON elsewhere (a);\n", {}, {"output_mode": "sql"}),
    "i": ("CREATE REMOTE SCHEMA rs2;\nCREATE TRANSIENT SCHEMA tr2;\nCREATE EXTERNAL SCHEMA ex2;\nCREATE TABLE t_i (a int); -- ci\nCREATE INDEX ix_i ON elsewhere (a);\n", {}, {"output_mode": "sql"}),
})
FRESH_PROGS.update({
    # the logging level of the FIRST object of a process configures the root logger: nothing another object returns may depend on it
    "j": ("CREATE TABLE t_j (a int); -- cj\n", {"log_level": 10}, {"output_mode": "sql"}),
    "k": ("CREATE TABLE sessions (id int);\nBEGIN CREATE TABLE orders (id int);\nIF NOT EXISTS (SELECT 1) CREATE TABLE users (id int);\nCREATE TABLE last_k (z int); -- ck\n",
          {}, {"output_mode": "sql"}),
})
FRESH_PROGS.update({
    # a twin of object a: the byte-identical RegexSerDe script given to ANOTHER object (other flags): whatever is remembered per script text
    # (memoised pre-processing, a cached lexer state) must still reach this object
    "l": (FRESH_PROGS["a"][0], {"normalize_names": True}),
})
KIND_DDL = ("CREATE EXTERNAL TABLE x1 (a int) LOCATION 's3://b/x';\nCREATE TEMPORARY TABLE x2 (a int);\nCREATE TRANSIENT TABLE x3 (a int);\n"
            "CREATE OR REPLACE TABLE x4 (a int) CLUSTER BY (a);\n")
PLAIN_DDL = "CREATE TABLE y1 (a int, b varchar(5));\nCREATE TABLE s1.y2 (c int);\nCREATE SEQUENCE sq_y START 1;\n"
MODE_DDL = ("CREATE EXTERNAL TABLE s1.t_m (a int NOT NULL, b varchar(5), c int ENCODE zstd) PARTITIONED BY (dt string) CLUSTERED BY (a) INTO 4 BUCKETS "
            "ROW FORMAT DELIMITED FIELDS TERMINATED BY ',' ESCAPED BY '#' STORED AS TEXTFILE LOCATION 's3://b/m' TBLPROPERTIES ('k'='v'); -- cm\n"
            "CREATE TABLE t_n (a int, b int) ENGINE=InnoDB TABLESPACE ts1;\nCREATE SEQUENCE sq_m START 2;\nALTER TABLE t_n ADD FOREIGN KEY (a) REFERENCES s1.t_m (a);\n")
FRESH_SRC = r'''
import sys, json
sys.path.insert(0, %r)
import logging  # (logging is left as the library configures it: the root level set by the first object must not matter)
from simple_ddl_parser import DDLParser
job = json.load(sys.stdin)
objs, out = {}, {}
for op, o in job["ops"]:
    text, flags = job["progs"][o][:2]
    kw = job["progs"][o][2] if len(job["progs"][o]) > 2 else {"output_mode": "hql"}
    if op == "construct":
        objs[o] = DDLParser(text, **flags)
    else:
        try:
            r = ["ok", objs[o].run(**kw)]
        except BaseException as e:
            r = ["exc", type(e).__name__]
        out.setdefault(o, []).append(r)
json.dump(out, sys.stdout, default=repr)
'''


def _fresh_task(ops, progs=None):
    import subprocess
    env = dict(os.environ)
    env.pop(C.GUARD, None)
    p = subprocess.run([C.PY, "-c", FRESH_SRC % C.REPO], input=json.dumps({"ops": ops, "progs": progs or FRESH_PROGS}), text=True,
                       stdout=subprocess.PIPE, stderr=subprocess.PIPE, env=env, cwd="/")
    if p.returncode != 0:
        return {"error": p.stderr[-500:]}
    return json.loads(p.stdout)


def fresh_histories(V, behs, rnd, n):
    """call-granularity behaviours -> construct / run sequences, each executed in its own interpreter, compared with solo processes"""
    hs = []
    for b in behs:
        ops = [["construct" if s["a"] == "BuildLexer" else "run", s["o"]] for s in b["hist"] if s["a"] in ("BuildLexer", "StartRun")]
        if ops not in hs:
            hs.append(ops)
    hs = hs if len(hs) <= n else rnd.sample(hs, n)
    objs = sorted({o for h in hs for _, o in h})
    solo = {o: _fresh_task([["construct", o], ["run", o]]) for o in objs}
    res = C.pool().map(_fresh_task, hs, 1)
    for ops, out in zip(hs, res):
        if "error" in out:
            raise C.MachineryError("fresh-interpreter history failed: " + out["error"])
        for o, runs in out.items():
            for i, r in enumerate(runs):
                if r != solo[o][o][0]:
                    V.mismatch({"kind": "fresh-interpreter history", "object": o, "run": i + 1, "history": [f"{a}({x})" for a, x in ops],
                                "script": FRESH_PROGS[o][0], "flags": FRESH_PROGS[o][1], "expected_solo": _short(solo[o][o][0]), "observed": _short(r)})
    return len(hs)


def _same_mode_pair(m):
    """tables of special kinds formatted in mode m, then plain tables formatted in the SAME mode by another object"""
    progs = {"x": (KIND_DDL, {}, {"output_mode": m}), "y": (PLAIN_DDL, {}, {"output_mode": m})}
    return _fresh_task([["construct", "x"], ["run", "x"], ["construct", "y"], ["run", "y"]], progs), _fresh_task([["construct", "y"], ["run", "y"]], progs)


def _mode_pair(t):
    m1, m2 = t
    progs = {"x": (MODE_DDL, {}, {"output_mode": m1}), "y": (MODE_DDL.replace("t_m", "t_y"), {}, {"output_mode": m2})}
    return _fresh_task([["construct", "x"], ["run", "x"], ["construct", "y"], ["run", "y"]] if m1 else [["construct", "y"], ["run", "y"]], progs)


def pair_histories(V, rnd, thorough):
    """every ordered pair of the objects a..g in three call orders, and ordered pairs of output modes on one dialect-rich script,
    each in its own interpreter: what one object's run leaves behind in the process (class attributes, module globals, caches) must
    not reach the other"""
    objs = sorted(FRESH_PROGS)
    solo = {o: _fresh_task([["construct", o], ["run", o]])[o][0] for o in objs}
    hs = []
    for a in objs:
        for b in objs:
            if a != b:
                hs += [[["construct", a], ["run", a], ["construct", b], ["run", b]], [["construct", a], ["construct", b], ["run", a], ["run", b]],
                       [["construct", a], ["construct", b], ["run", b], ["run", a], ["run", b]]]
    res = C.pool().map(_fresh_task, hs, 1)
    for ops, out in zip(hs, res):
        if "error" in out:
            V.mismatch({"kind": "fresh-interpreter pair history", "problem": "the interpreter died / an exception escaped the harness", "history": [f"{a}({x})" for a, x in ops],
                        "error": out["error"][-300:]})
            continue
        for o, runs in out.items():
            for i, r in enumerate(runs):
                if r != solo[o]:
                    V.mismatch({"kind": "fresh-interpreter pair history", "object": o, "run": i + 1, "history": [f"{a}({x})" for a, x in ops],
                                "script": FRESH_PROGS[o][0], "flags": FRESH_PROGS[o][1], "run_args": FRESH_PROGS[o][2] if len(FRESH_PROGS[o]) > 2 else {},
                                "expected_solo": _short(solo[o]), "observed": _short(r)})
    from .. import clauses as K
    modes = list(K.MODES)
    msolo = dict(zip(modes, C.pool().map(_mode_pair, [(None, m) for m in modes], 1)))
    pairs = [(m1, m2) for m1 in modes for m2 in modes if m1 != m2]
    if not thorough:
        pairs = rnd.sample(pairs, 40) + [("hql", "athena"), ("athena", "hql"), ("sql", "bigquery"), ("bigquery", "sql")]
    for (m1, m2), out in zip(pairs, C.pool().map(_mode_pair, pairs, 1)):
        if "error" in out or "error" in msolo[m2]:
            raise C.MachineryError("mode-pair history failed: " + str(out.get("error") or msolo[m2].get("error")))
        if out["y"] != msolo[m2]["y"]:
            V.mismatch({"kind": "fresh-interpreter mode pair", "history": [f"run(output_mode={m1})", f"run(output_mode={m2}) of another object"], "script": MODE_DDL,
                        "expected_solo": _short(msolo[m2]["y"][0]), "observed": _short(out["y"][0])})
    for m_, (both, alone) in zip(modes, C.pool().map(_same_mode_pair, modes, 1)):
        if "error" in both or "error" in alone:
            raise C.MachineryError("same-mode history failed: " + str(both.get("error") or alone.get("error")))
        if both["y"] != alone["y"]:
            V.mismatch({"kind": "fresh-interpreter same-mode pair", "history": [f"run(output_mode={m_}) on EXTERNAL / TEMPORARY / TRANSIENT tables", f"run(output_mode={m_}) of another object on plain tables"],
                        "script": PLAIN_DDL, "expected_solo": _short(alone["y"][0]), "observed": _short(both["y"][0])})
    return len(hs), len(pairs) + len(modes)


def run(tier, seed):
    t0 = time.time()
    rnd = random.Random(seed)
    os.environ[C.GUARD] = "1"
    V = C.Verdict(PID)
    states = trans = 0
    samples = []
    cov = {}

    # ---- 1. model checking: contract configurations, exhaustive ------------------------------
    mc_cfgs = [(["a", "b"], 2, 2, 0), (["a", "b"], 2, 1, 1), (["a", "b"], 2, 1, 2), (["a", "b", "c"], 1, 1, 1),
               (["a", "b", "c"], 1, 2, 2)]
    if tier == "thorough":
        mc_cfgs += [(["a", "b", "c"], 2, 2, 0), (["a", "b", "c"], 2, 1, 1), (["a", "b", "c"], 2, 2, 2), (["a", "b"], 3, 3, 0)]
    for objs, ns, mr, v in mc_cfgs:
        r = mc(consts(objs, ns, mr, v), f"contract {objs} NStmt={ns} MaxRuns={mr} variant={v}")
        states += r.distinct
        trans += r.generated
    cov["mc_configs"] = [f"Obj={o} NStmt={n} MaxRuns={m} variant={v}" for o, n, m, v in mc_cfgs]

    # ---- 2. negative controls: the shipped defects must still be refuted by the same invariants ---
    mc(consts(["a", "b"], 2, 1, 0, binding="global"), "global binding", expect_violation="Isolation")
    mc(consts(["a", "b"], 1, 1, 1, binding="global"), "global binding/silent", expect_violation="Isolation")
    mc(consts(["a", "b"], 1, 2, 2, registry="shared"), "shared registry", expect_violation="Isolation")
    cov["negative_controls"] = ["Binding=global refutes Isolation", "Registry=shared refutes Isolation"]

    # ---- 3. generation: every interleaving at statement granularity + call-level histories -----
    pool = C.pool()  # fork workers before any thread exists in this process
    gens = []
    for v in (0, 1, 2):
        gens.append((["a", "b"], 2, 1, v, "stmt"))
    gens.append((["a", "b", "c"], 1, 2, 2, "call"))
    gens.append((["a", "b", "c"], 1, 1, 1, "sim"))   # 756 756 interleavings: sampled by TLC simulation
    if tier == "thorough":
        gens.append((["a", "b"], 3, 1, 0, "stmt"))
        gens.append((["a", "b", "c"], 2, 1, 0, "sim"))
        gens.append((["a", "b", "c"], 2, 2, 2, "sim"))
        gens.append((["a", "b"], 2, 2, 2, "call"))
        gens.append((["a", "b", "c"], 2, 2, 1, "call"))
    tasks, meta = [], []
    for objs, ns, mr, v, gran in gens:
        if gran == "sim":
            r = C.run_tlc("Lifecycle", dict(spec="Spec", constants=consts(objs, ns, mr, v, hist=True),
                                            invariants=INVS + ["Emit"]),
                          workers=1, simulate="num=%d" % (300 if tier == "quick" else 5000), depth=40, seed=seed + 11)
            C.require_tlc_ok(r, f"simulation {objs} {ns} {mr} {v}")
            seen, behs = set(), []
            for b in r.beh:
                k = repr(b["hist"])
                if k not in seen:
                    seen.add(k)
                    behs.append(b)
        else:
            r = mc(consts(objs, ns, mr, v, gran=gran, hist=True), f"generation {objs} {ns} {mr} {v} {gran}")
            behs = r.beh
        cap = 500 if tier == "quick" else 20000
        if len(behs) > cap:
            behs = rnd.sample(behs, cap)
        for b in behs:
            runs = {o: ["A1"] * mr for o in objs}
            tasks.append((b["hist"], objs, ns, v, runs))
            meta.append((objs, ns, mr, v, gran, b))
    cov["behaviours_exported"] = len(tasks)
    call_behs = [b for (objs, ns, mr, v, gran, b) in meta if gran == "call"]
    cov["fresh_interpreter_histories"] = fresh_histories(V, call_behs, rnd, 40 if tier == "quick" else 400)
    cov["fresh_interpreter_pair_histories"], cov["fresh_interpreter_mode_pairs"] = pair_histories(V, rnd, tier == "thorough")

    # ---- 4. replay into the real code (one real thread per object) -----------------------------
    solos = {}
    for objs, ns, mr, v, gran in gens:
        solos.update(solo_table(objs, ns, [v], ["A1"]))
    results = pool.map(_replay_task, tasks, 8)
    traces = []
    did = L.DigestIds()
    solo_ev = {}
    n_drift = 0
    for (objs, ns, mr, v, gran, b), (outs, events, drift) in zip(meta, results):
        n_drift += len(drift)
        for o in objs:
            want = solos[(o, ns, v, "A1")]
            for i, got in enumerate(outs[o]):
                if got != want:
                    V.mismatch({"kind": "replay", "object": o, "run": i + 1, "schedule": [f"{s['a']}({s['o']})" for s in b["hist"]],
                                "script": L.programme(o, ns, v)[0], "flags": L.programme(o, ns, v)[1],
                                "expected_solo": _short(want), "observed": _short(got)})
            if len(outs[o]) != mr:
                V.mismatch({"kind": "replay", "object": o, "problem": f"{len(outs[o])} results for {mr} runs",
                            "schedule": [f"{s['a']}({s['o']})" for s in b["hist"]]})
        key = (tuple(objs), ns, v)
        if key not in solo_ev:
            progs = {o: L.programme(o, ns, v) for o in objs}
            solo_ev[key] = L.solo_trace_tables(progs, {o: [{}] for o in objs})
        traces.append((key, mr, events, False))
    if len(samples) < 3 and meta:
        for objs, ns, mr, v, gran, b in meta[:2]:
            samples.append({"schedule": [f"{s['a']}({s['o']})" for s in b["hist"]], "spec_obs": b["obs"],
                            "scripts": {o: L.programme(o, ns, v)[0] for o in objs}})

    # ---- 5. free-running threads (real pre-emption), events only ---------------------------------
    nfree = 150 if tier == "quick" else 3000
    ftasks = [(["a", "b", "c"] if k % 3 == 0 else ["a", "b"], 2, k % 3, 1 + (k % 2), k) for k in range(nfree)]
    fres = pool.map(_free_task, ftasks, 8)
    for (objs, ns, v, nr, k), (outs, events) in zip(ftasks, fres):
        if (tuple(objs), ns, v) not in solo_ev:
            progs = {o: L.programme(o, ns, v) for o in objs}
            solo_ev[(tuple(objs), ns, v)] = L.solo_trace_tables(progs, {o: [{}] for o in objs})
            solos.update(solo_table(objs, ns, [v], ["A1"]))
        for o in objs:
            want = solos[(o, ns, v, "A1")]
            for i, got in enumerate(outs[o]):
                if got != want:
                    V.mismatch({"kind": "free-threads", "object": o, "run": i + 1, "objects": objs, "variant": v,
                                "expected_solo": _short(want), "observed": _short(got)})
        traces.append(((tuple(objs), ns, v), nr, events, True))

    # ---- 6. code -> spec: TLC validates every recorded execution against the contract ---------------
    batches = {}
    for key, mr, events, free in traces:
        objs, ns, v = key
        st = solo_ev[key]
        rec = {"solo": {o: [did(x) for x in st[o]["stmts"]] + [0] * (ns + 1) for o in objs},
               "solorun": {o: (did(st[o]["run"][0]) if st[o]["run"] else 0) for o in objs},
               "ev": L.to_trace(events, did), "free": free}
        batches.setdefault((objs, ns, mr, v), []).append(rec)
    n_valid = 0
    drift_rej = 0
    drift_notes = []
    for (objs, ns, mr, v), trs in sorted(batches.items()):
        cs = consts(list(objs), ns, mr, v)
        for strict in (False, True):
            # internal fields (owner of the PLY globals) are only meaningful when events are serialised by the
            # scheduler: in free-running threads the rebinding and its event are not atomic
            use = trs if not strict else [t for t in trs if not t["free"]]
            acc, rej, r = T.validate("TraceLifecycle", use, cs, strict=strict)
            trs_used = use
            if not strict:
                n_valid += len(acc)
                states += r.distinct
                trans += r.generated
                for p in rej:
                    tr = trs[p["tid"] - 1] if p.get("tid") else None
                    V.mismatch({"kind": "trace-rejected", "objects": list(objs), "variant": v,
                                "failing_event": tr["ev"][p["line"] - 1] if tr and p.get("line") else p,
                                "model_state_before": {k: p.get(k) for k in ("pc", "sidx", "gLexer", "gParse")},
                                "prefix": [f"{e['event']}({e['o']})" for e in tr["ev"][:p["line"]]] if tr and p.get("line") else None})
            else:
                drift_rej += len(rej)
                for p in rej[:3]:
                    tr = trs_used[p["tid"] - 1] if p.get("tid") else None
                    drift_notes.append({"objects": list(objs), "variant": v, "line": p.get("line"),
                                        "event": tr["ev"][p["line"] - 1] if tr and p.get("line") else None,
                                        "state": {k: p.get(k) for k in ("pc", "sidx", "gLexer", "gParse")},
                                        "free_running": tr.get("free", False) if tr else None})
    cov["model_drift"] = {"scheduler_notes": n_drift, "strict_only_rejections": drift_rej, "notes": drift_notes[:6]}

    # ---- 7. the binding itself: a corrupted trace must be rejected -------------------------------------
    (objs, ns, mr, v), trs = sorted(batches.items())[0]
    import copy
    bad = copy.deepcopy(trs[0])
    for e in bad["ev"]:
        if e["event"] == "ParseStmt":
            e["digest"] = 9999
            break
    acc, rej, _ = T.validate("TraceLifecycle", [bad], consts(list(objs), ns, mr, v), strict=False)
    if not rej:
        raise C.MachineryError("binding self-test: a trace with a corrupted statement digest was accepted")
    cov["binding_selftest"] = "corrupted ParseStmt digest rejected at line %s" % rej[0].get("line")

    rc = V.finish()
    cov.update({"states": states, "transitions": trans,
                "traces_validated_against_impl": n_valid + len(tasks),
                "replayed_schedules": len(tasks), "free_running_executions": nfree,
                "recorded_traces_accepted_by_TLC": n_valid,
                "samples": samples, "exhaustive": True,
                "explanation": "TLC exhaustively checks Isolation/Repeatable/NoAliasing on the contract configuration of "
                               "Lifecycle.tla and refutes them on the two shipped-defect configurations; every exported "
                               "interleaving is executed with real threads and compared with solo results; all recorded "
                               "event traces are accepted by TraceLifecycle.tla."})
    C.write_evidence(PID, tier, seed, cov, time.time() - t0, len(V.viol),
                     ["statement-granularity schedules (yield points), not bytecode granularity",
                      "solo oracle = construct+run immediately in a throw-away process",
                      "TLC, PLY and CPython are trusted"])
    return rc


def _short(x):
    s = repr(x)
    return s if len(s) < 600 else s[:600] + "..."


def replay(path):
    return C.generic_replay(path)
