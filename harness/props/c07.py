"""C07 String and numeric literals are reported exactly as written.

Decided by spec/Scanner.tla (literal mode): LiteralVerbatim - inside quotes every character is copied verbatim, whatever its
class - over every string of <= 2 (3) character classes out of 21 (letters, digits, space, comma, parentheses, =, ;, --, #,
/*, */, backslash, non-ASCII, tab, newline, double quote, doubled quote, keyword-shaped words, other punctuation).  Every
class string is concretised with representatives drawn by seed and written in each literal position (column DEFAULT, column
COMMENT, CHECK operand, ENUM value, string-valued table option); the real library must report exactly the characters between
and including the quotes.  Purely numeric defaults of 1..20 digits must come back as equal integers.  The pre-processor is
regular-expression heuristics; the classes on which it departs are deviations TLC tags from the literal alone and are
KNOWN-FINDINGs when listed.
"""
import json
import random
import time

from .. import common as C

PID = "C07"
REPR = {
    "letter": ["a", "Zq", "word"], "digit": ["7", "42"], "space": [" "], "comma": [","], "lpar": ["("], "rpar": [")"], "eq": ["="], "semi": [";"],
    "dash2": ["--"], "hash": ["#"], "copen": ["/*"], "cclose": ["*/"], "bslash": ["\\"], "nonascii": ["ü", "日", "Ж"], "tab": ["\t"], "nl": ["\n"],
    "dquote": ['"'], "quote2": ["''"], "kw": ["select", "NULL", "Primary", "default"], "punct": [".", ":", "!", "%", "-", "+", "@", "_"], "colon_word": ["a:b"], "stmtword": ["DROP TABLE y", "create table z", "Alter Table q", "GO"],
}
CLASSES = sorted(REPR)

# literal positions: id -> (ddl with {L}, extractor)
POS = {
    "default": ("CREATE TABLE t1 (a int, b varchar(50) DEFAULT {L}, c int);", lambda r: r[0]["columns"][1]["default"]),
    "comment": ("CREATE TABLE t1 (a int, b varchar(50) COMMENT {L}, c int);", lambda r: r[0]["columns"][1]["comment"]),
    "check": ("CREATE TABLE t1 (a int, b varchar(50), c int, CHECK (b <> {L}));", lambda r: r[0]["checks"][0]["statement"]),
    "col_check": ("CREATE TABLE t1 (a int, b varchar(50) CHECK (b <> {L}), c int);", lambda r: r[0]["columns"][1]["check"]),
    "default_then_comment": ("CREATE TABLE t1 (a int, b varchar(50) DEFAULT {L} COMMENT 'plain note', c int DEFAULT 'z');", lambda r: r[0]["columns"][1]["default"]),
    "comment_after_default": ("CREATE TABLE t1 (a int DEFAULT 'q', b varchar(50) NOT NULL COMMENT {L}, c int);", lambda r: r[0]["columns"][1]["comment"]),
    "alter_check": ("CREATE TABLE t1 (a int, b varchar(50));\nALTER TABLE t1 ADD CHECK (b <> {L});", lambda r: r[0]["alter"]["checks"][0]["statement"]),
    "enum": ("CREATE TYPE ty1 AS ENUM ('first', {L}, 'last');", lambda r: r[0]["properties"]["values"][1]),
    "option": ("CREATE TABLE t1 (a int, b varchar(50), c int) LOCATION {L};", lambda r: r[0]["table_properties"]["location"]),
    # literals as LIST elements / option values inside CREATE TABLE (wave-4 seeds C07-I / C07-J)
    # a literal that holds the name of a column as a word, the column renamed afterwards (identifier rewriting must not reach into literals)
    "check_then_rename": ("CREATE TABLE t1 (a int, word varchar(50), c int, CHECK (word <> {L}));\nALTER TABLE t1 RENAME COLUMN word TO renamed;", lambda r: r[0]["checks"][0]["statement"]),
    "default_then_rename": ("CREATE TABLE t1 (a int, Zq varchar(50) DEFAULT {L}, c int);\nALTER TABLE t1 RENAME COLUMN Zq TO renamed;\nALTER TABLE t1 RENAME COLUMN a TO a2;", lambda r: r[0]["columns"][1]["default"]),
    "col_enum": ("CREATE TABLE t1 (a int, b ENUM('first', {L}, 'last'), c int);", lambda r: r[0]["columns"][1]["values"][1]),
    "col_check_in": ("CREATE TABLE t1 (a int, b varchar(50) CHECK (b IN ('x', {L})), c int);", lambda r: r[0]["columns"][1]["check"][0]["in_statement"]["in"][1]),
    "default_paren": ("CREATE TABLE t1 (a int, b varchar(50) DEFAULT ({L}), c int);", lambda r: r[0]["columns"][1]["default"]),
    "tblproperties": ("CREATE TABLE t1 (a int, b int) TBLPROPERTIES ('k1'={L}, 'K2'='v2');", lambda r: r[0]["table_properties"]["tblproperties"]["'k1'"]),
    "catalog": ("CREATE TABLE t1 (a int, b int) CATALOG = {L};", lambda r: r[0]["table_properties"]["catalog"]),
    "pattern": ("CREATE TABLE t1 (a int, b int) PATTERN = {L};", lambda r: r[0]["table_properties"]["pattern"]),
    "table_format": ("CREATE TABLE t1 (a int, b int) TABLE_FORMAT = {L};", lambda r: r[0]["table_properties"]["table_format"]),
    "external_volume": ("CREATE TABLE t1 (a int, b int) EXTERNAL_VOLUME = {L};", lambda r: r[0]["table_properties"]["external_volume"]),
    "table_comment_eq": ("CREATE TABLE t1 (a int, b int) COMMENT = {L};", lambda r: r[0]["comment"]),
    "serde_class": ("CREATE TABLE t1 (a int, b int) ROW FORMAT SERDE {L};", lambda r: r[0]["table_properties"]["row_format"]["java_class"]),
    # defaults given by ALTER TABLE (a later statement restating / adding the column)
    "alter_modify_default": ("CREATE TABLE t1 (a int, b varchar(50) DEFAULT 'old', c int);\nALTER TABLE t1 MODIFY b varchar(50) DEFAULT {L};", lambda r: r[0]["columns"][1]["default"]),
    "alter_column_default": ("CREATE TABLE t1 (a int, b varchar(50), c int);\nALTER TABLE t1 ALTER COLUMN b varchar(50) DEFAULT {L};", lambda r: r[0]["columns"][1]["default"]),
    "alter_add_default": ("CREATE TABLE t1 (a int, c int);\nALTER TABLE t1 ADD b varchar(50) DEFAULT {L};", lambda r: r[0]["columns"][2]["default"]),
    "alter_default_for": ("CREATE TABLE t1 (a int, b varchar(50), c int);\nALTER TABLE t1 ADD CONSTRAINT df1 DEFAULT {L} FOR b;", lambda r: r[0]["alter"]["defaults"][0]["value"]),
    "fields_terminated": ("CREATE TABLE t1 (a int, b int) FIELDS TERMINATED BY {L};", lambda r: r[0]["table_properties"]["fields_terminated_by"]),
}


def consts(**kw):
    d = dict(Skeletons="<<>>", Gaps="{}", Cases="{}", CaseBase='"upper"', MaxOdd=0,
             LitClasses="{" + ", ".join(f'"{c}"' for c in CLASSES) + "}", MaxLit=2, Mode='"literal"', WithHist="FALSE")
    d.update(kw)
    return d


def mc(cs, what):
    hist = cs["WithHist"] == "TRUE"
    r = C.run_tlc_wrapped("Scanner", cs, dict(spec="Spec", invariants=["LiteralVerbatim"] + (["Emit"] if hist else [])), workers=1 if hist else 4, timeout=900)
    C.require_tlc_ok(r, what)
    return r


def concretise(classes, rnd):
    return "".join(rnd.choice(REPR[c]) for c in classes)


def run(tier, seed):
    t0 = time.time()
    rnd = random.Random(seed)
    V = C.Verdict(PID)
    thorough = tier == "thorough"
    n = 4 if thorough else 3
    r = mc(consts(MaxLit=n), f"class strings of length <= {n}")
    states, trans = r.distinct, r.generated
    g = mc(consts(MaxLit=n, WithHist="TRUE"), "generation")
    behs = g.beh
    cap = 30000 if thorough else 3500
    if len(behs) > cap:
        keep = [b for b in behs if len(b["lit"]) <= 2]
        behs = keep + rnd.sample([b for b in behs if len(b["lit"]) > 2], cap - len(keep))
    # a second, exhaustive enumeration over a FOCUS alphabet with longer strings (blank = blank, word = word, doubled quotes ..): every string kept
    gf = mc(consts(MaxLit=4 if not thorough else 5, WithHist="TRUE", LitClasses='{"letter", "space", "eq", "quote2", "digit"}'), "generation (focus alphabet)")
    behs = behs + [b for b in gf.beh if len(b["lit"]) >= 3]
    states += gf.distinct
    trans += gf.generated
    cases, tasks = [], []
    reps = 2 if thorough else 1
    for b in behs:
        for k in range(reps):
            text = concretise(b["lit"], rnd)
            for pid, (ddl, ext) in POS.items():
                lit = "'" + text + "'"
                cases.append((b, pid, lit, ext))
                tasks.append((ddl.replace("{L}", lit) + "\n", {}, {}))
    outs, nu = C.parse_many(tasks)
    for (b, pid, lit, ext), tk, o in zip(cases, tasks, outs):
        tags = set(b["dev"])
        case = {"position": pid, "classes": b["lit"], "literal": lit, "ddl": tk[0], "spec_dev": sorted(tags)}
        if o[0] != "ok":
            V.mismatch(dict(case, problem="raised", error=o[1:3]), tags=tags, paths=["raised"])
            continue
        try:
            got = ext(o[1])
        except Exception as e:  # noqa
            V.mismatch(dict(case, problem="literal not reported at its position (" + type(e).__name__ + ")"), tags=tags, paths=["missing"])
            continue
        ok = (got == lit) if pid not in ("check", "col_check", "alter_check", "check_then_rename") else (isinstance(got, str) and lit in got)
        if not ok:
            V.mismatch(dict(case, problem="literal not verbatim", reported=got), tags=tags, paths=["literal"])
    # numeric defaults come back as integers of the same value
    nums = ["0", "7", "42", "1000", "12345", "999999999", "2147483648", "9223372036854775807", "12345678901234567890", "00012"]
    NUMPOS = {"create": ("CREATE TABLE t1 (a int, b bigint DEFAULT {x}, c int);\n", 1),
              "create_between_options": ("CREATE TABLE t1 (a int, b bigint NOT NULL DEFAULT {x} COMMENT 'n', c int);\n", 1),
              "alter_modify": ("CREATE TABLE t1 (a int, b bigint DEFAULT 5, c int);\nALTER TABLE t1 MODIFY b bigint DEFAULT {x};\n", 1),
              "alter_modify_no_previous": ("CREATE TABLE t1 (a int, b bigint, c int);\nALTER TABLE t1 MODIFY b bigint DEFAULT {x};\n", 1),
              "alter_column": ("CREATE TABLE t1 (a int, b bigint DEFAULT 5, c int);\nALTER TABLE t1 ALTER COLUMN b bigint DEFAULT {x};\n", 1),
              "alter_add": ("CREATE TABLE t1 (a int, c int);\nALTER TABLE t1 ADD b bigint DEFAULT {x};\n", 2)}
    nt = [(tpl.replace("{x}", x), {}, {}) for x in nums for tpl, _ in NUMPOS.values()]
    nmeta = [(x, pid, ci) for x in nums for pid, (_, ci) in NUMPOS.items()]
    outs, _ = C.parse_many(nt)
    for (x, pid, ci), tk, o in zip(nmeta, nt, outs):
        try:
            got = o[1][0]["columns"][ci]["default"]
        except Exception:  # noqa
            got = o
        if got != int(x) or isinstance(got, bool) or not isinstance(got, int):
            V.mismatch({"problem": "numeric default is not the integer of the same value", "position": pid, "written": x, "reported": got, "ddl": tk[0]}, paths=["numeric"])
    rc = V.finish()
    b = behs[len(behs) // 2]
    cov = {"states": states, "transitions": trans, "traces_validated_against_impl": len(cases) + len(nt), "class_strings": len(behs), "positions": sorted(POS),
           "classes": CLASSES, "samples": [{"classes": b["lit"], "literal": "'" + concretise(b["lit"], random.Random(1)) + "'", "ddl": POS["default"][0]}],
           "exhaustive": len(g.beh) == len(behs), "known_findings_met": V.hits}
    C.write_evidence(PID, tier, seed, cov, time.time() - t0, len(V.viol),
                     ["fidelity for a particular character is only as good as the representatives drawn for its class",
                      "a CHECK reports the whole expression: the literal must occur in it verbatim", "TLC, PLY, CPython trusted"])
    return rc


def replay(path):
    return C.generic_replay(path)
