"""C20 Parse tables in use are those of the declared grammar, whatever the cache state.

Decided by spec/ParseTables.tla (TablesDeclared) model-checked over all sequences of cache faults, process restarts
and parser constructions; every exported behaviour is replayed on a scratch copy of the working tree's package
(faults applied to its parsetab.py) and each constructed parser must give the valid-cache results on the corpus.
The Build step also performs the artefact comparison the property states: a cached table file whose signature
matches the grammar holds the same actions / gotos / productions as a fresh in-memory generation.
"""
import json
import os
import random
import shutil
import subprocess
import tempfile
import time

from .. import common as C
from .. import corpus as K

PID = "C20"
WORKER = os.path.join(C.VERIF, "harness", "c20_worker.py")


def consts(mf, mb, mp, *, trust=True, regen=True, hist=False):
    return dict(MaxFaults=mf, MaxBuilds=mb, MaxProcs=mp, TrustSignature="TRUE" if trust else "FALSE",
                CanRegenerate="TRUE" if regen else "FALSE", WithHist="TRUE" if hist else "FALSE")


def mc(cs, what, expect=None, workers=None):
    r = C.run_tlc("ParseTables", dict(spec="Spec", constants=cs, invariants=["TypeOK", "TablesDeclared", "Emit"],
                                      properties=["CacheHeals"]), workers=workers or (1 if cs["WithHist"] == "TRUE" else C.NCPU))
    if expect:
        if expect not in r.violated:
            raise C.MachineryError(f"negative control {what}: {expect} not refuted ({r.violated})\n{r.tail[-500:]}")
    else:
        C.require_tlc_ok(r, what)
    return r


ARTEFACT_SRC = r'''
import sys, json, logging
logging.disable(logging.CRITICAL)
from simple_ddl_parser import DDLParser
import simple_ddl_parser, os, importlib
import ply.yacc as yacc
_shipped = {}
exec(open(os.path.join(os.path.dirname(simple_ddl_parser.__file__), "parsetab.py")).read(), _shipped)      # before any parser is built
p = DDLParser("create table a (b int);")          # regenerates a stale cache as a side effect
pinfo = yacc.ParserReflect({k: getattr(p, k) for k in dir(p)}, log=yacc.NullLogger())
pinfo.get_all()
sig = pinfo.signature()
tab = importlib.import_module("simple_ddl_parser.parsetab")
tab = importlib.reload(tab)
out = {"grammar_signature": sig, "file_signature": tab._lr_signature, "tabversion": tab._tabversion}
if tab._lr_signature == sig:
    lr = yacc.LRTable(); lr.read_table(tab)
    fresh = yacc.yacc(module=p, debug=False, write_tables=False, tabmodule="verif_no_such_tabmodule",
                      errorlog=yacc.NullLogger())
    ne = lambda d: {k: v for k, v in d.items() if v}      # the file omits states without entries
    out["action_equal"] = ne(lr.lr_action) == ne(fresh.action)
    out["goto_equal"] = ne(lr.lr_goto) == ne(fresh.goto)
    fp = [(str(x), x.name, x.len, x.func) for x in fresh.productions]
    cp = [(x.str, x.name, x.len, x.func) for x in lr.lr_productions]
    out["productions_equal"] = fp == cp
    out["n_states"] = len(fresh.action); out["n_productions"] = len(fp)
    if _shipped.get("_lr_signature") == sig:
        out["shipped_productions"] = [(a, b, c, d) for a, b, c, d, e, f in _shipped["_lr_productions"]] == [(x.str, x.name, x.len, x.func) for x in fresh.productions]
json.dump(out, sys.stdout)
'''


def make_scratch():
    d = tempfile.mkdtemp(prefix="verif_c20_")
    shutil.copytree(os.path.join(C.REPO, "simple_ddl_parser"), os.path.join(d, "simple_ddl_parser"),
                    ignore=shutil.ignore_patterns("__pycache__"))
    return d


def py_in(scratch, src_or_file, inp=None, is_file=False):
    env = dict(os.environ, PYTHONPATH=scratch, PYTHONDONTWRITEBYTECODE="1")
    env.pop(C.GUARD, None)
    cmd = [C.PY, src_or_file] if is_file else [C.PY, "-c", src_or_file]
    p = subprocess.run(cmd, input=inp, text=True, stdout=subprocess.PIPE, stderr=subprocess.PIPE, env=env, cwd=scratch)
    return p


def fault_files(valid_text):
    ns = {}
    exec(valid_text, ns)
    import ply.yacc as yacc
    # expand to the attribute form read_table consumes, then perturb
    action, goto = ns["_lr_action"], ns["_lr_goto"]
    stale_action = {st: {t: a for t, a in d.items() if t not in ("ALTER", "INDEX", "SEQUENCE")} for st, d in action.items()}
    stale = ("_tabversion = %r\n_lr_method = 'LALR'\n_lr_signature = 'stale signature of an older grammar'\n"
             "_lr_action = %r\n_lr_goto = %r\n_lr_productions = %r\n" % (ns["_tabversion"], stale_action, goto, ns["_lr_productions"]))
    oldver = valid_text.replace("_tabversion = %r" % ns["_tabversion"], "_tabversion = '3.8'")
    if oldver == valid_text:
        raise C.MachineryError("cannot craft an old-version table file")
    return {"stale": stale, "oldver": oldver}, ns["_lr_signature"]


def _replay_task(task):
    idx, hist, inputs, faults, valid_sig, valid_text = task
    scratch = make_scratch()
    try:
        with open(os.path.join(scratch, "simple_ddl_parser", "parsetab.py"), "w") as f:
            f.write(valid_text)
        segs, cur = [], []
        for s in hist:
            if s["a"] == "NewProcess":
                segs.append(cur)
                cur = []
            elif s["a"] == "Fault":
                cur.append(["fault", s["k"]])
            else:
                cur.append(["build"])
        segs.append(cur)
        obs = []
        for ops in segs:
            p = py_in(scratch, WORKER, json.dumps({"ops": ops, "inputs": inputs, "valid_sig": valid_sig, "fault_files": faults, "probe_flags": [{}, {"silent": False}][idx % 2]}),
                      is_file=True)
            if p.returncode != 0:
                obs.append({"build": "process-died", "stderr": p.stderr[-600:]})
                continue
            obs += json.loads(p.stdout)
        return idx, obs
    finally:
        shutil.rmtree(scratch, ignore_errors=True)


def run(tier, seed):
    t0 = time.time()
    rnd = random.Random(seed)
    V = C.Verdict(PID)
    cov = {}
    states = trans = 0

    # ---- 1. model checking --------------------------------------------------------------------------
    big = (3, 3, 3) if tier == "quick" else (4, 4, 3)
    r = mc(consts(*big), "contract")
    states += r.distinct
    trans += r.generated
    mc(consts(2, 2, 2, trust=False), "optimize mode", expect="TablesDeclared")
    mc(consts(2, 2, 2, regen=False), "cannot regenerate", expect="TablesDeclared")
    cov["negative_controls"] = ["TrustSignature=FALSE (optimize) refutes TablesDeclared", "CanRegenerate=FALSE refutes TablesDeclared"]

    # ---- 2. artefact comparison on the working tree (performed on a scratch copy) ---------------------
    scratch = make_scratch()
    try:
        if C.SHIPPED_PARSETAB is not None:      # the file as shipped (an earlier use of the library may have regenerated the working-tree copy)
            with open(os.path.join(scratch, "simple_ddl_parser", "parsetab.py"), "w") as f:
                f.write(C.SHIPPED_PARSETAB)
        p = py_in(scratch, ARTEFACT_SRC)
        if p.returncode != 0:
            V.mismatch({"problem": "library cannot build its parser from the working tree's grammar", "stderr": p.stderr[-800:]})
            art = {}
        else:
            art = json.loads(p.stdout)
            shipped = C.SHIPPED_PARSETAB if C.SHIPPED_PARSETAB is not None else open(os.path.join(C.REPO, "simple_ddl_parser", "parsetab.py")).read()
            ns = {}
            exec(shipped, ns)
            art["shipped_signature_matches_grammar"] = ns.get("_lr_signature") == art["grammar_signature"]
            if art["shipped_signature_matches_grammar"]:
                # the SHIPPED file is the cache state `valid`: it must be usable as it is - loaded without complaint, not rewritten, and its
                # productions (rule, length, handler) those of a fresh generation (compared before any parser was built from it)
                after = open(os.path.join(scratch, "simple_ddl_parser", "parsetab.py")).read()
                art["shipped_file_left_untouched_by_a_build"] = after == shipped
                art["shipped_loaded_without_complaint"] = "problem loading the table file" not in p.stderr
                if not art["shipped_file_left_untouched_by_a_build"] or not art["shipped_loaded_without_complaint"]:
                    V.mismatch({"problem": "the shipped table file carries the grammar's signature but is not used as it is (PLY could not load it / regenerated and rewrote it)",
                                "stderr": p.stderr[-400:]})
                if art.get("shipped_productions") is not None and art["shipped_productions"] is False:
                    V.mismatch({"problem": "the shipped table file carries the grammar's signature but its productions (rule, length, handler) differ from a fresh generation"})
            for k in ("action_equal", "goto_equal", "productions_equal"):
                if art.get(k) is False:
                    V.mismatch({"problem": f"cached table file with matching signature differs from a fresh generation: {k}"})
            if "action_equal" not in art:
                V.mismatch({"problem": "after a build the table file's signature still differs from the grammar's", "artefact": art})
        valid_text = open(os.path.join(scratch, "simple_ddl_parser", "parsetab.py")).read()
    finally:
        shutil.rmtree(scratch, ignore_errors=True)
    import hashlib
    cov["artefact"] = {k: (hashlib.sha1(v.encode()).hexdigest()[:16] if k.endswith("signature") and isinstance(v, str) else v)
                       for k, v in art.items()}
    if V.viol:
        rc = V.finish()
        cov.update({"states": states, "transitions": trans, "traces_validated_against_impl": 0, "samples": [cov["artefact"]]})
        C.write_evidence(PID, tier, seed, cov, time.time() - t0, len(V.viol), [])
        return rc
    faults, valid_sig = fault_files(valid_text)

    # ---- 3. generation + replay ---------------------------------------------------------------------------
    g = mc(consts(3, 3, 3, hist=True) if tier == "thorough" else consts(2, 3, 2, hist=True), "generation")
    behs = g.beh
    seen, uniq = set(), []
    for b in behs:
        k = json.dumps(b["hist"])
        if k not in seen:
            seen.add(k)
            uniq.append(b)
    cov["behaviours_exported"] = len(uniq)
    cap = 48 if tier == "quick" else 400
    if len(uniq) > cap:
        # stratify: keep every distinct (fault kinds used, number of processes) class, then fill randomly
        by = {}
        for b in uniq:
            key = (tuple(sorted({s["k"] for s in b["hist"] if s["a"] == "Fault"})), sum(s["a"] == "NewProcess" for s in b["hist"]))
            by.setdefault(key, []).append(b)
        pick = [rnd.choice(v) for v in by.values()]
        rest = [b for b in uniq if b not in pick]
        pick += rnd.sample(rest, max(0, cap - len(pick)))
        uniq = pick[:max(cap, len(by))]
    corp = K.harvest()
    ninp = 50 if tier == "quick" else len(corp)
    inputs = [[r["text"], r["ctor"]] for r in rnd.sample(corp, ninp)]
    inputs.append(["create table s.t (a int, b int);\nALTER TABLE s.t ADD UNIQUE (a);\nCREATE INDEX i ON s.t (b);\n"
                   "CREATE SEQUENCE s.q START WITH 5 INCREMENT BY 2;\n", {}])
    # valid-cache baseline
    base = _replay_task((0, [{"a": "Build", "k": "-"}], inputs, faults, valid_sig, valid_text))[1]
    if not base or base[0].get("build") != "ok":
        raise C.MachineryError(f"baseline build failed: {base}")
    base_d = base[0]["digests"]
    tasks = [(i, b["hist"], inputs, faults, valid_sig, valid_text) for i, b in enumerate(uniq)]
    res = C.pool().map(_replay_task, tasks, 1)
    nb = 0
    drift = []
    for idx, obs in res:
        b = uniq[idx]
        builds = [s for s in b["hist"] if s["a"] == "Build"]
        if len(obs) != len(builds):
            V.mismatch({"problem": "a process died / builds missing", "history": b["hist"], "observed": obs})
            continue
        for j, o in enumerate(obs):
            nb += 1
            want = b["tables"][j]  # "declared" in every contract behaviour
            if o.get("build") != "ok":
                V.mismatch({"problem": "constructing a parser failed in this cache state", "history": _h(b["hist"]), "build": j + 1,
                            "observed": o})
            elif o["digests"] != base_d:
                bad = [i for i, (x, y) in enumerate(zip(o["digests"], base_d)) if x != y]
                V.mismatch({"problem": "results differ from the valid-cache results", "history": _h(b["hist"]), "build": j + 1,
                            "spec_tables": want, "n_inputs_differing": len(bad), "first_input": inputs[bad[0]][0][:300]})
        # internal: file healed after each build?
        for j, o in enumerate(obs):
            if o.get("file_after") not in ("valid", None):
                drift.append({"history": _h(b["hist"]), "build": j + 1, "file_after": o.get("file_after")})
    cov["model_drift"] = {"cache_not_rewritten": len(drift), "notes": drift[:3]}
    # ---- a subclass that declares one more rule runs with the tables of ITS grammar, whether or not a plain parser was built first ---------
    EXT_SRC = (
        "import json, sys, logging\n"
        "logging.disable(logging.CRITICAL)\n"
        "from simple_ddl_parser import DDLParser\n"
        "class Ext(DDLParser):\n"
        "    def p_expression_maintenance(self, p):\n"
        "        'expr : id id id'\n"
        "        p[0] = {'maintenance': p[1], 'mode': p[2], 'target': p[3]}\n"
        "out = {}\n"
        "if sys.argv[1] == 'plain_first':\n"
        "    pl = DDLParser('CREATE TABLE plain (a int PRIMARY KEY);')\n"
        "    out['plain'] = pl.run()\n"
        "    out['plain_productions'] = len(pl.yacc.productions)\n"
        "ex = Ext('VACUUM FULL t1;\\nCREATE TABLE t1 (a int, b varchar(3) NOT NULL);\\n')\n"
        "out['ext'] = ex.run()\n"
        "out['ext_productions'] = len(ex.yacc.productions)\n"
        "out['plain_after'] = DDLParser('CREATE TABLE plain (a int PRIMARY KEY);').run()\n"
        "json.dump(out, sys.stdout, default=repr)\n")
    ext_obs = {}
    for order in ("ext_only", "plain_first"):
        sc3 = make_scratch()
        try:
            with open(os.path.join(sc3, "simple_ddl_parser", "parsetab.py"), "w") as f:
                f.write(valid_text)
            with open(os.path.join(sc3, "ext_child.py"), "w") as f:
                f.write(EXT_SRC)
            env = dict(os.environ, PYTHONPATH=sc3, PYTHONDONTWRITEBYTECODE="1")
            env.pop(C.GUARD, None)
            pr = subprocess.run([C.PY, "ext_child.py", order], cwd=sc3, env=env, stdout=subprocess.PIPE, stderr=subprocess.PIPE, text=True)
            ext_obs[order] = json.loads(pr.stdout) if pr.returncode == 0 else {"died": pr.stderr[-300:]}
        finally:
            shutil.rmtree(sc3, ignore_errors=True)
    a_, b_ = ext_obs["ext_only"], ext_obs["plain_first"]
    if "died" in a_ or "died" in b_ or a_.get("ext") != b_.get("ext") or a_.get("ext_productions") != b_.get("ext_productions") \
            or b_.get("ext_productions") != b_.get("plain_productions", 0) + 1 or a_.get("plain_after") != b_.get("plain"):
        V.mismatch({"problem": "a parser subclass with one more grammar rule does not run with the tables of its own grammar when a plain parser was built first",
                    "subclass_alone": a_, "after_a_plain_parser": b_})
    cov["extended_grammar_subclass"] = {"productions": [a_.get("ext_productions"), b_.get("ext_productions"), b_.get("plain_productions")]}
    # ---- the command line in every cache state: what `sdp file --no-dump` / `-v` prints must be what it prints with a valid cache ------------
    cli_in = "CREATE TABLE s.t (a int, b varchar(5) NOT NULL);\nCREATE SEQUENCE s.q START 5;\n"
    cli_out = {}
    for state in ("valid", "missing", "stale", "oldver"):
        sc2 = make_scratch()
        try:
            tabp = os.path.join(sc2, "simple_ddl_parser", "parsetab.py")
            if state == "missing":
                os.unlink(tabp)
            else:
                with open(tabp, "w") as f:
                    f.write(valid_text if state == "valid" else faults[state])
            with open(os.path.join(sc2, "in.sql"), "w") as f:
                f.write(cli_in)
            obs = []
            for extra in (["--no-dump"], ["-v", "-t", "out_v"]):
                pr = py_in(sc2, "from simple_ddl_parser.cli import main; import sys; sys.argv = ['sdp', 'in.sql'] + %r; main()" % (extra,))
                obs.append((pr.returncode, pr.stdout))
                # (each call is a fresh interpreter; the first one heals the cache, so put the fault back for the second)
                if state == "missing" and os.path.exists(tabp):
                    os.unlink(tabp)
                elif state in ("stale", "oldver"):
                    with open(tabp, "w") as f:
                        f.write(faults[state])
            cli_out[state] = obs
        finally:
            shutil.rmtree(sc2, ignore_errors=True)
    for state in ("missing", "stale", "oldver"):
        for (rc0, o0), (rc1, o1), how in zip(cli_out["valid"], cli_out[state], ("--no-dump", "-v")):
            if (rc0, o0) != (rc1, o1):
                V.mismatch({"problem": "the command line prints something else when the table cache is " + state, "arguments": how, "exit_status": [rc0, rc1],
                            "valid_cache_stdout_lines": len(o0.splitlines()), "stdout_lines": len(o1.splitlines()), "stdout_head": o1[:300]})
    cov["cli_in_cache_states"] = {k: [len(o.splitlines()) for _, o in v] for k, v in cli_out.items()}
    rc = V.finish()
    cov.update({"states": states, "transitions": trans, "traces_validated_against_impl": len(uniq),
                "builds_replayed": nb, "inputs_per_build": len(inputs),
                "samples": [{"history": _h(uniq[0]["hist"]), "spec_tables": uniq[0]["tables"]},
                            {"history": _h(uniq[-1]["hist"]), "spec_tables": uniq[-1]["tables"]}],
                "exhaustive": tier == "thorough" or len(uniq) == cov["behaviours_exported"]})
    C.write_evidence(PID, tier, seed, cov, time.time() - t0, len(V.viol),
                     ["PLY's table generation algorithm is trusted; the comparison is between its cached and fresh outputs",
                      "stale cache = older signature + tables lacking ALTER/INDEX/SEQUENCE actions",
                      "replay on a scratch copy of /repo's package; /repo itself is never modified by this check"])
    return rc


def _h(hist):
    return [s["a"] if s["k"] == "-" else f"{s['a']}({s['k']})" for s in hist]


def replay(path):
    return C.generic_replay(path)
