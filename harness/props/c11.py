"""C11 Dialect clauses are captured under their key, orthogonal to the table body.

Decided by spec/Clauses.tla: ClauseOrthogonal, ClausesCombine, NoForeignKeys, ClauseMode and Placement are model-checked
over every body x every single clause and every compatible ordered pair (thorough: triple) of the 39-clause catalogue
x {owning mode, default mode}, and must be refuted on the `overwrite` and `swallow` variants.  Every shown behaviour is
rendered (body + clauses in the order TLC chose) and parsed by the real library in the mode TLC chose: the body fields
must equal the clause-free body, each clause's key must hold the catalogue value at the placement (top level /
table_properties) TLC computed, and no other dialect key may appear at top level.
"""
import json
import time

from .. import common as C
from .. import clauses as K

PID = "C11"
INV = ["ClauseOrthogonal", "ClausesCombine", "NoForeignKeys", "ClauseMode", "Placement", "ModeFields"]
BASE_KEYS = {"table_name", "schema", "primary_key", "columns", "alter", "checks", "index", "partitioned_by", "tablespace", "table_properties",
             "constraints", "dataset"}


def mc(cs, what, expect=None):
    hist = cs["WithHist"] == "TRUE"
    invs = INV + (["Emit"] if hist else [])
    if expect:
        invs = [expect]
    r = C.run_tlc_wrapped("Clauses", cs, dict(spec="Spec", invariants=invs, view=None if hist else "View"), workers=1 if hist else C.NCPU, timeout=900)
    if expect:
        if expect not in r.violated:
            raise C.MachineryError(f"negative control {what}: TLC no longer refutes {expect} (violated={r.violated})\n{r.tail[-500:]}")
    else:
        C.require_tlc_ok(r, what)
    return r


def _j(x):
    return json.dumps(x, sort_keys=True)      # type-strict: 0 is not False is not "0"


def owner_of(b, key):
    for c in b["clauses"]:
        e = K.CAT[c]
        if key in {K.key_name(x) for x in e["own"]} | {K.key_name(x) for x in e["sql"]}:
            return c
    return None


TABLES = [("t1", None), ("app.t1", "app"), ("t1", None)]


def table_of(b):
    """the table's own name is another axis a clause must be independent of: unqualified / schema-qualified, chosen per behaviour"""
    return TABLES[(len(b["clauses"]) + sum(len(c) for c in b["clauses"]) + len(b["body"])) % len(TABLES)]


def check_one(b, o, baseline_keys):
    """-> (paths, observed summary)"""
    if o[0] != "ok":
        return ["raised"], list(o[:3])
    tabs = [e for e in o[1] if "table_name" in e]
    if len(tabs) != 1:
        return ["tables"], [t.get("table_name") for t in tabs]
    t = tabs[0]
    paths = []
    cols, pk = K.body_projection(t)
    exp = K.BODIES[b["body"]]
    if [tuple(x) for x in cols] != [tuple(x) for x in exp[1]] or pk != exp[2]:
        paths.append("body")
    if t.get("table_name") != "t1" or t.get("schema", t.get("dataset")) != table_of(b)[1]:
        paths.append("body.name")
    slot = "own" if b["mode"] != "sql" else "sql"
    props = t.get("table_properties") or {}
    for k in b["top"]:
        if k not in t or _j(t[k]) != _j(K.value_of(owner_of(b, k), k, slot)):
            paths.append("top." + k)
    for k in b["props"]:
        if k not in props or _j(props[k]) != _j(K.value_of(owner_of(b, k), k, slot)):
            paths.append("props." + k)
    # nothing else: no clause key at a placement TLC did not compute, no unknown top-level key
    for k in t:
        if k not in baseline_keys and k not in b["top"]:
            paths.append("extra_top." + k)
    for k in props:
        if k not in b["props"]:
            paths.append("extra_props." + k)
    return paths, {"top": {k: t.get(k) for k in b["top"]}, "props": props, "cols": cols, "pk": pk}


def run(tier, seed):
    t0 = time.time()
    V = C.Verdict(PID)
    thorough = tier == "thorough"
    ids = sorted(K.CAT)
    bodies = sorted(K.BODIES)
    cov = {"model_checked": []}
    r = mc(K.tla_consts(ids, bodies, MaxClauses=3 if thorough else 2), "catalogue x bodies")
    states, trans = r.distinct, r.generated
    cov["model_checked"].append({"config": f"{len(ids)} clauses, {len(bodies)} bodies, <= {3 if thorough else 2} clauses", "distinct_states": r.distinct})
    mc(K.tla_consts(ids, ["plain"], Variant='"overwrite"'), "a clause replaces the previous clause's entry", expect="ClausesCombine")
    mc(K.tla_consts(ids, ["last_default"], Variant='"swallow"', MaxClauses=1), "first clause swallowed by DEFAULT", expect="ClauseOrthogonal")
    cov["negative_controls"] = ["Variant=overwrite refutes ClausesCombine", "Variant=swallow refutes ClauseOrthogonal"]
    gens = [("singles x bodies", K.tla_consts(ids, bodies, MaxClauses=1, WithHist="TRUE")),
            ("pairs", K.tla_consts(ids, ["plain", "table_pk"] if not thorough else bodies, MaxClauses=2, WithHist="TRUE"))]
    if not thorough:
        gens.append(("triples (one body)", K.tla_consts(ids, ["last_notnull"], MaxClauses=3, WithHist="TRUE")))
    if thorough:
        gens.append(("triples", K.tla_consts(ids, ["last_notnull", "table_pk", "last_default_num"], MaxClauses=3, WithHist="TRUE")))
    # top-level keys of a clause-free table per mode (what is NOT a clause key)
    modes = sorted({K.CAT[c]["dialect"] for c in ids} | {"sql"})
    outs, _ = C.parse_many([("CREATE TABLE t1 (a int, b varchar(10));", {}, {"output_mode": m}) for m in modes])
    baseline = {}
    for m, o in zip(modes, outs):
        if o[0] != "ok":
            raise C.MachineryError("clause-free table does not parse in mode " + m)
        baseline[m] = set(o[1][0]) | {"constraints", "table_properties"}
    total = 0
    cov["generation"] = []
    sample = None
    for what, cs in gens:
        g = mc(cs, "generation " + what)
        behs = [b for b in g.beh if b["clauses"]]
        tasks = [(K.render(b, table_of(b)[0]), {}, {"output_mode": b["mode"]}) for b in behs]
        outs, nu = C.parse_many(tasks)
        nbad = 0
        for b, tk, o in zip(behs, tasks, outs):
            paths, got = check_one(b, o, baseline[b["mode"]])
            if paths:
                nbad += 1
                V.mismatch({"what": what, "ddl": tk[0], "run": tk[2], "clauses": b["clauses"], "body": b["body"], "paths": paths[:8],
                            "expected": {"top": sorted(b["top"]), "props": sorted(b["props"])}, "observed": got}, paths=paths)
        total += len(tasks)
        cov["generation"].append({"config": what, "behaviours": len(behs), "mismatches": nbad})
        if behs and what == "pairs":
            b = behs[len(behs) // 2]
            sample = {"abstract": b, "ddl": K.render(b)}
    # ---- the lexer's after-columns mode (spec/Lexer.tla ClauseMode): every catalogue clause, token by token, model vs real lexer ----
    from .. import lexer as L
    from .. import lex_check as LF
    tb = L.tables()
    tpls = []
    for c in ids:
        real = L.lex_real("CREATE TABLE t1 ( a int ) " + K.CAT[c]["ddl"])
        if any(t[0] == "ERROR" for t in real):
            continue
        slots = []
        for typ, val, _ in real:
            w = L.word(val, tb, rule={"STRING_BASE": "STRING", "DQ_STRING": "DQ", "DOT": "DOT"}.get(typ))
            if typ == "EQ":
                continue      # `=` has its own lexer rule and touches last_token only
            slots.append(("kw" if typ not in ("ID", "STRING_BASE", "DQ_STRING") else "id", [w]))
        tpls.append(slots)
    lr = LF.mc(LF.consts(tb, tpls), "clause templates", invs=["ClauseMode", "FreshAtStart", "DepthTracked"])
    states += lr.distinct
    trans += lr.generated
    lg = LF.mc(LF.consts(tb, tpls, WithHist="TRUE"), "clause templates (generation)", invs=[])
    # `=` tokens were left out of the templates: compare with the real lexer on the same token values
    bad = LF.drift_count(lg.beh)
    cov["lexer_after_columns_mode"] = {"clause_templates": len(tpls), "behaviours_lexed": len(lg.beh), "token_type_or_flag_mismatches (model drift)": len(bad),
                                       "examples": bad[:2]}
    rc = V.finish()
    cov.update({"states": states, "transitions": trans, "traces_validated_against_impl": total + len(lg.beh), "samples": [sample], "exhaustive": True})
    C.write_evidence(PID, tier, seed, cov, time.time() - t0, len(V.viol),
                     ["clause texts, keys, values and placements are the frozen catalogue harness/clause_catalog.json (derived from the pinned tree, "
                      "reviewed against the property's list)", "clauses combine within one dialect; ORGANIZATION INDEX only directly after the columns",
                      "TLC, PLY, CPython trusted"])
    return rc


def replay(path):
    return C.generic_replay(path)
