"""C01 Column definitions are reproduced exactly and in order; none lost or invented.

Decided by spec/TableFold.tla: ColumnsExact and AppendOnly (with PKExact / UniqueFlags / ShapeOK alongside) are
model-checked over every order of every subset of the core option groups {NULL | NOT NULL, DEFAULT, PRIMARY KEY,
UNIQUE, REFERENCES} on a focus column at position 1, 2 or 3, for every type form, and must be refuted on the defective
folds kept as negative controls.  Every complete behaviour of the generation configurations is rendered to a CREATE
TABLE statement (alone, or between two other tables) and parsed by the real library; the column list it reports must
equal the contract observable TLC computed (name, type text, size, nullability, default value, in order).
"""
import random
import time

from .. import common as C
from .. import tablefold as T
from .. import tf_check as F

PID = "C01"


def keep(p):
    return {"cols": [{k: c[k] for k in ("n", "ty", "size", "nullable", "df")} for c in p["cols"]]}


def growth_extras(seed, thorough):
    """DESIGN 3.10 item 1 (outside C01's core fragment, so never a verdict): the other column options the grammar folds, in every order
    with each other and with the core options; reported in the evidence and in OBSERVATIONS.md"""
    opts = [(T.EXTRAS[x][0], x) for x in T.EXTRAS] + [("null", "notnull"), ("default", "d1"), ("unique", "u"), ("pk", "pk")]
    g = F.mc(F.consts(WithHist="TRUE", TypeForms='{"vc"}', Opts=F.optset(*opts), MaxOpts=3 if thorough else 2), "growth: extra column options")
    tasks = [(T.render(b["hist"], seed) + "\n", {}, {}) for b in g.beh]
    outs, _ = C.parse_many(tasks)
    cats = {}
    for b, tk, o in zip(g.beh, tasks, outs):
        probs = []
        tabs = [e for e in o[1] if "table_name" in e] if o[0] == "ok" else []
        if len(tabs) != 1:
            probs = ["table lost / raised"]
        else:
            exp = keep(T.expected(b["obs"], b["open"]))
            if keep(T.project_table(tabs[0], b["open"])) != exp:
                probs.append("core fields differ")
            for i, c in enumerate(tabs[0]["columns"]):
                for x in b["obs"]["cols"][i]["ex"]:
                    gv = c.get(T.EXTRAS[x][2])
                    if (list(gv) if isinstance(gv, tuple) else gv) != T.EXTRAS[x][3]:
                        probs.append("extra option not reported: " + x)
        for p in probs:
            k = p + " | " + " ".join(a for a in F.abstract(b) if "=" in a)
            cats[k] = cats.get(k, 0) + 1
    return {"behaviours": len(g.beh), "states": g.distinct, "deviating": sum(cats.values()), "categories (first 12)": dict(sorted(cats.items())[:12])}, g


def run(tier, seed):
    t0 = time.time()
    V = C.Verdict(PID)
    thorough = tier == "thorough"
    cov = {"model_checked": [], "generation": []}
    states = trans = 0
    alltypes = "{" + ", ".join(f'"{t}"' for t in T.TYPES if t != "int") + "}"
    alldef = [("default", d) for d in T.DEFAULTS]
    mcs = [("focus column 2, <=4 options of 8, 3 type forms", F.consts(TypeForms='{"vc","dec","dp"}')),
           ("focus column 1, <=3 options", F.consts(FocusAt=1, MaxOpts=3)),
           ("focus column 3, <=3 options", F.consts(FocusAt=3, MaxOpts=3))]
    if thorough:
        mcs += [("focus 2, <=5 options incl. CHECK and COMMENT", F.consts(MaxOpts=5, Opts=F.optset(*(F.CORE_OPTS + [("check", "c1"), ("comment", "l1")])))),
                ("4 columns, focus 4", F.consts(MaxCols=4, FocusAt=4, MaxOpts=3))]
    for what, cs in mcs:
        r = F.mc(cs, what)
        states += r.distinct
        trans += r.generated
        cov["model_checked"].append({"config": what, "distinct_states": r.distinct, "wall_s": round(r.wall, 1)})
    F.mc(F.consts(Variant='"default_lost_after_ref"', MaxOpts=2), "DEFAULT dropped after REFERENCES", expect="ColumnsExact")
    F.mc(F.consts(Variant='"pk_keeps_nullable"', MaxOpts=2), "PRIMARY KEY leaves the column nullable", expect="ColumnsExact")
    cov["negative_controls"] = ["Variant=default_lost_after_ref refutes ColumnsExact", "Variant=pk_keeps_nullable refutes ColumnsExact"]

    gens = [("orders@2", F.consts(WithHist="TRUE", TypeForms='{"vc","dec"}', MaxOpts=4), True),
            ("orders@1", F.consts(WithHist="TRUE", FocusAt=1, MaxOpts=2 if not thorough else 3), True),
            ("orders@3", F.consts(WithHist="TRUE", FocusAt=3, MaxOpts=2 if not thorough else 3), True),
            ("types x defaults", F.consts(WithHist="TRUE", TypeForms=alltypes, Opts=F.optset(*alldef), MaxOpts=1), False)]
    if thorough:
        gens += [("check+comment", F.consts(WithHist="TRUE", MaxOpts=4, Opts=F.optset(*(F.CORE_OPTS[:3] + F.CORE_OPTS[4:7] + [("check", "c1"), ("comment", "l1"), ("comment", "l2")]))), True),
                 ("defaults x orders", F.consts(WithHist="TRUE", TypeForms='{"vc"}', MaxOpts=3, Opts=F.optset(*(alldef + [("null", "notnull"), ("unique", "u"), ("ref", "r2")]))), True),
                 ("4 columns", F.consts(WithHist="TRUE", MaxCols=4, FocusAt=4, MaxOpts=2), True)]
    sim_cfg = None
    if thorough:
        sim_cfg = F.consts(WithHist="TRUE", MaxCols=4, FocusAt=3, MaxOpts=7, TypeForms=alltypes,
                           Opts=F.optset(*(F.CORE_OPTS + alldef[2:8] + [("check", "c1"), ("comment", "l1"), ("comment", "l2"), ("ref", "r2"), ("ref", "r4")])))
    seeds = [seed * 5 + i for i in range(3 if not thorough else 5)]
    total = uniq = 0
    sample = None
    for what, cs, extra in gens:
        g = F.mc(cs, "generation " + what)
        n, nu, nbad = F.compare(V, g.beh, seeds, what, keep, extra_tables=extra, layouts=T.LAYOUTS)
        total += n
        uniq += nu
        # the same contract in every other output mode (a dialect class must not change keys, nullability, flags or columns): each mode a slice
        from .. import clauses as KM
        import random as _r
        msub = g.beh if len(g.beh) <= 560 else _r.Random(seed).sample(g.beh, 560)
        others = [m for m in KM.MODES if m != "sql"]
        for mi, m_ in enumerate(others):
            n2, nu2, _ = F.compare(V, msub[mi::len(others)], seeds[:1], f"{what} / {m_}", keep, run={"output_mode": m_}, extra_tables=extra, layouts=("oneline", "multiline"))
            total += n2
            uniq += nu2
        cov["generation"].append({"config": what, "behaviours": len(g.beh), "renderings": n, "mismatches": nbad})
        if sample is None and g.beh:
            b = g.beh[len(g.beh) // 3]
            sample = {"abstract": F.abstract(b), "ddl": T.render(b["hist"], seeds[0]), "expected": keep(T.expected(b["obs"], b["open"]))}
    if sim_cfg:
        g = F.mc(sim_cfg, "simulation: 4 columns, <=7 options in any order, every type / default form", timeout=3000, simulate="num=30000", depth=16, seed=seed + 3)
        ub = list({repr(b["hist"]): b for b in g.beh}.values())
        n, nu, nbad = F.compare(V, ub, seeds[:2], "simulation", keep, extra_tables=True, layouts=T.LAYOUTS)
        total += n
        uniq += nu
        cov["generation"].append({"config": "simulation (4 columns, <=7 options)", "behaviours": len(ub), "renderings": n, "mismatches": nbad})
    gr, gg = growth_extras(seed, thorough)
    states += gg.distinct
    trans += gg.generated
    cov["growth_extra_column_options (not a verdict)"] = gr
    rc = V.finish()
    cov.update({"states": states, "transitions": trans, "traces_validated_against_impl": total, "distinct_real_parses": uniq,
                "seeds": seeds, "samples": [sample], "exhaustive": True})
    C.write_evidence(PID, tier, seed, cov, time.time() - t0, len(V.viol),
                     ["type / default / reference forms are pool entries (harness/tablefold.py), one representative per abstract id",
                      "other tables of the script are canonical neighbours t0 / t2", "TLC, PLY, CPython trusted"])
    return rc


def replay(path):
    return F.replay_file(path, keep)
