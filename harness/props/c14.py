"""C14 run() is deterministic, repeatable and free of side effects.

Decided by spec/Lifecycle.tla: Repeatable (every run, whatever preceded it on the object, equals the fresh-object
run; no per-run accumulator carries over), NoAliasing (a result already handed out never changes), AppendOnly.
TLC enumerates every call history (construct / run(args) sequences); each is replayed on the real library over
the regression corpus and state-leaving scripts; two-object histories are additionally trace-validated.
Hash-seed / process independence: the same inputs in fresh interpreters under three PYTHONHASHSEEDs.
"""
import copy
import json
import os
import random
import subprocess
import tempfile
import time

from .. import common as C
from .. import corpus as K
from .. import lifecycle as L
from .. import tracecheck as T
from . import c15

PID = "C14"

SPECIAL = [
    # scripts that leave per-run accumulators non-empty when the run ends
    ("no_terminators", "CREATE TABLE a (id int)\nCREATE TABLE b (id int)", {}),
    ("no_final_semicolon", "CREATE TABLE a (id int);\nCREATE TABLE b (id int,\n x varchar(3))", {}),
    ("comments_all_styles", "-- head\n# mysql\n/* block */\nCREATE TABLE a ( -- t1\n id int, /* c */\n x int /* open\n*/\n); -- tail\n", {}),
    ("indented_block_opener", "CREATE TABLE a (\n   /* indented opener\n   body\n   */\n id int);\n", {}),
    ("unclosed_block", "CREATE TABLE a (id int); /* never closed\nCREATE TABLE b (id int);\n", {}),
    ("unclosed_block_at_line_start", "CREATE TABLE a (id int);\n/* never closed\nCREATE TABLE b (id int);\n", {}),
    ("ends_inside_block", "CREATE TABLE a (id int); -- c\n/*\n still open", {}),
    ("trailing_set_no_newline", "CREATE TABLE a (id int);\nSET x = 1;\nSET y = 2;", {}),
    ("pk_clause_and_inline_keys", "CREATE TABLE t (a int PRIMARY KEY, b int PRIMARY KEY, c int PRIMARY KEY, dd int, ee int PRIMARY KEY, PRIMARY KEY (dd));\n", {}),
    ("many_table_options", "CREATE TABLE t (a int) ENGINE=InnoDB AUTO_INCREMENT=5 DEFAULT CHARSET=utf8 COMMENT='x' ROW_FORMAT=DYNAMIC KEY_BLOCK_SIZE=8;\n", {}),
    ("many_uniques", "CREATE TABLE t (a int UNIQUE, b int UNIQUE, c int, d int, UNIQUE (c), UNIQUE (d), UNIQUE (a, b), CONSTRAINT u1 UNIQUE (c, d));\n", {}),
    ("trailing_set", "CREATE TABLE a (id int);\nSET x = 1;", {}),
    ("set_then_table", "SET y = 2;\nCREATE TABLE a (id int);\n", {}),
    ("pending_unbalanced", "CREATE TABLE a (id int,\n", {}),
    ("raises_midway", "CREATE TABLE a (id int);\nCREATE TABLE b (id int, PRIMARY);\nCREATE TABLE c (id int);\n", {"silent": False}),
    ("alter_unknown", "CREATE TABLE a (id int);\nALTER TABLE zz ADD UNIQUE (id);\n", {}),
    ("alter_and_index", "CREATE TABLE s.a (id int, b int); -- c1\nALTER TABLE s.a ADD FOREIGN KEY (id, b) REFERENCES s.o (x, y); -- c2\nCREATE UNIQUE INDEX i ON s.a (id DESC); -- c3\n", {}),
    ("normalized", 'CREATE TABLE "s"."A" ("Id" int PRIMARY KEY, [b] int); -- q\n', {"normalize_names": True}),
]


def _hist_task(task):
    """One object, one call history: returns list of problems (JSON-able)."""
    idx, text, ctor, args_seq = task
    lib = C._import_lib()
    probs = []
    cwd = tempfile.mkdtemp(prefix="verif_c14_")
    old = os.getcwd()
    os.chdir(cwd)
    try:
        ctor_copy = copy.deepcopy(ctor)
        try:
            p = lib.DDLParser(text, **ctor)
        except BaseException as e:  # noqa
            return idx, [{"problem": "constructor raised", "exc": type(e).__name__}], []
        held = []
        outs = []
        for a in args_seq:
            a_copy = copy.deepcopy(a)
            r = L.outcome(lambda: p.run(**a))
            held.append((r, copy.deepcopy(r)))
            outs.append(r)
            if a != a_copy:
                probs.append({"problem": "run() modified its arguments"})
        for i, (r, snap) in enumerate(held):
            if r != snap:
                probs.append({"problem": "a result already returned was modified by a later call", "run": i + 1,
                              "at_return": c15._short(snap), "now": c15._short(r)})
        if ctor != ctor_copy:
            probs.append({"problem": "constructor modified its arguments"})
        left = os.listdir(cwd)
        if left:
            probs.append({"problem": "files created without dump", "files": left[:5]})
        return idx, probs, C.jnorm(outs)
    finally:
        os.chdir(old)
        import shutil
        shutil.rmtree(cwd, ignore_errors=True)


def _settings_task(_):
    """parse_from_file with a caller-owned parser_settings dict, called twice: the dict is untouched and the second call does what the first did"""
    lib = C._import_lib()
    root = tempfile.mkdtemp(prefix="verif_c14_ps_")
    probs = []
    try:
        src = os.path.join(root, "a.sql")
        for text, st in (("CREATE TABLE a (id int);\nCREATE TABLE b (id int, PRIMARY);\nCREATE TABLE c (id int);\n", {"silent": False}),
                         ('CREATE TABLE "A" ("Id" int);\nSELECT 1;\n', {"silent": True, "normalize_names": True}),
                         ("CREATE TABLE a (id int); -- c\n", {"normalize_names": False, "silent": False, "debug": False})):
            with open(src, "w") as f:
                f.write(text)
            before = copy.deepcopy(st)
            outs = [L.outcome(lambda: lib.parse_from_file(src, parser_settings=st)) for _ in range(2)]
            if st != before:
                probs.append({"problem": "parse_from_file modified its parser_settings argument", "before": before, "after": st})
            if C.jnorm(outs[0]) != C.jnorm(outs[1]):
                probs.append({"problem": "the second parse_from_file call with the same arguments did something else", "settings": before,
                              "first": c15._short(outs[0]), "second": c15._short(outs[1])})
    finally:
        import shutil
        shutil.rmtree(root, ignore_errors=True)
    return probs


def _fs_task(task):
    """calls that do not request a dump, with and without a dump_path (missing / nested / existing): nothing may appear on disk"""
    how, dump_path_kind = task
    lib = C._import_lib()
    root = tempfile.mkdtemp(prefix="verif_c14_fs_")
    old = os.getcwd()
    os.chdir(root)
    try:
        os.makedirs(os.path.join(root, "in"))
        os.makedirs(os.path.join(root, "existing"))
        src = os.path.join(root, "in", "a.sql")
        text = "CREATE TABLE a (id int, b varchar(5)); -- c\nCREATE SEQUENCE s START 1;\n"
        with open(src, "w") as f:
            f.write(text)
        before = sorted((d, tuple(sorted(fs))) for d, _, fs in os.walk(root))
        dp = {"none": None, "missing": "schemas_out", "nested": os.path.join("x", "y", "z"), "existing": "existing"}[dump_path_kind]
        kw = {} if dp is None else {"dump_path": dp}
        try:
            if how == "run":
                lib.DDLParser(text).run(**kw)
            elif how == "run_group":
                lib.DDLParser(text).run(group_by_type=True, **kw)
            elif how == "file":
                lib.parse_from_file(src, **kw)
            elif how == "file_dump_false":
                lib.parse_from_file(src, dump=False, **kw)
            elif how == "cli_no_dump":
                from simple_ddl_parser import cli
                import contextlib
                import io
                argv = [src, "--no-dump"] + (["-t", dp] if dp else [])
                import sys as _sys
                old_argv = _sys.argv
                _sys.argv = ["sdp"] + argv
                try:
                    with contextlib.redirect_stdout(io.StringIO()), contextlib.redirect_stderr(io.StringIO()):
                        try:
                            cli.main()
                        except SystemExit:
                            pass
                finally:
                    _sys.argv = old_argv
        except BaseException as e:  # noqa
            return {"problem": "a call without dump raised", "how": how, "dump_path": dump_path_kind, "exc": type(e).__name__ + ": " + str(e)[:100]}
        after = sorted((d, tuple(sorted(fs))) for d, _, fs in os.walk(root))
        if before != after:
            new = [d[len(root):] for d, _ in after if d not in {x for x, _ in before}] + \
                  [os.path.join(d[len(root):], f) for d, fs in after for f in fs if (d, f) not in {(x, g) for x, gs in before for g in gs}]
            return {"problem": "a call that requested no dump changed the file system", "how": how, "dump_path": dump_path_kind, "created": new[:6]}
        return None
    finally:
        os.chdir(old)
        import shutil
        shutil.rmtree(root, ignore_errors=True)


SEED_SRC = r'''
import sys, json, hashlib
sys.path.insert(0, %r)
import logging; logging.disable(logging.CRITICAL)
from simple_ddl_parser import DDLParser
jobs = json.load(sys.stdin)
out = []
for text, ctor, args in jobs:
    try:
        r = DDLParser(text, **ctor).run(**args)
        out.append(["ok", hashlib.sha1((r if isinstance(r, str) else json.dumps(r)).encode()).hexdigest()])
    except BaseException as e:
        out.append(["exc", type(e).__name__])
json.dump(out, sys.stdout)
'''


def fresh_process_digests(jobs, hashseed):
    env = dict(os.environ, PYTHONHASHSEED=str(hashseed))
    env.pop(C.GUARD, None)
    p = subprocess.run([C.PY, "-c", SEED_SRC % C.REPO], input=json.dumps(jobs), text=True, stdout=subprocess.PIPE,
                       stderr=subprocess.PIPE, env=env, cwd="/")
    if p.returncode != 0:
        raise C.MachineryError("hash-seed process failed: " + p.stderr[-1000:])
    return json.loads(p.stdout)


def process_side_effects(V):
    """C14 `free of side effects`, at process level: once an object has run (once or twice), a FRESH object built afterwards returns what it
    returns in a fresh process.  Every ordered pair of the objects of c15.FRESH_PROGS (RegexSerDe script, TBLPROPERTIES, strict mode, dialect
    clauses, debug / log level ...), each history in its own interpreter."""
    objs = sorted(c15.FRESH_PROGS)
    solo = {o: c15._fresh_task([["construct", o], ["run", o]]) for o in objs}
    hs = [[["construct", a], ["run", a]] + ([["run", a]] if (i + j) % 2 else []) + [["construct", b], ["run", b], ["run", b]]
          for i, a in enumerate(objs) for j, b in enumerate(objs) if a != b]
    res = C.pool().map(c15._fresh_task, hs, 1)
    for ops, out in zip(hs, res):
        b = ops[-1][1]
        if "error" in out or "error" in solo[b]:
            V.mismatch({"kind": "process-level side effect", "problem": "the interpreter died / an exception escaped", "history": [f"{x}({o})" for x, o in ops],
                        "error": str(out.get("error") or solo[b].get("error"))[-300:]})
            continue
        for i, r in enumerate(out[b]):
            if r != solo[b][b][0]:
                V.mismatch({"kind": "process-level side effect", "problem": "a fresh object built after another object has run does not return what it returns in a fresh process",
                            "history": [f"{x}({o})" for x, o in ops], "object": b, "run": i + 1, "script": c15.FRESH_PROGS[b][0], "flags": c15.FRESH_PROGS[b][1],
                            "expected_fresh_process": c15._short(solo[b][b][0]), "observed": c15._short(r)})
                break
    return len(hs)


def run(tier, seed):
    t0 = time.time()
    rnd = random.Random(seed)
    os.environ[C.GUARD] = "1"
    V = C.Verdict(PID)
    states = trans = 0
    cov = {}
    pool = C.pool()

    # ---- 1. model checking -------------------------------------------------------------------
    allacc = c15.ACCS
    argn = ("A1", "A2", "A3", "A4")
    cfgs = [(["a"], 2, 3, 0, argn), (["a", "b"], 2, 2, 0, ("A1", "A2")), (["a", "b"], 1, 2, 1, ("A1",))]
    if tier == "thorough":
        cfgs += [(["a", "b", "c"], 1, 2, 0, ("A1", "A2")), (["a"], 3, 4, 0, argn)]
    for objs, ns, mr, v, args in cfgs:
        r = c15.mc(c15.consts(objs, ns, mr, v, gran="call", args=args, leaves=allacc), f"C14 contract {objs} {ns} {mr}")
        states += r.distinct
        trans += r.generated
    # negative controls: each way of not re-initialising must be refuted
    c15.mc(c15.consts(["a"], 2, 2, 0, gran="call", reset=(), leaves=allacc), "no reset", expect_violation="Repeatable")
    c15.mc(c15.consts(["a"], 2, 2, 0, gran="call", reset=("comments", "block_comments"), leaves=allacc),
           "statement not reset", expect_violation="Repeatable")
    r = C.run_tlc("Lifecycle", dict(spec="Spec", constants=c15.consts(["a"], 2, 2, 0, gran="call", reset=("statement", "block_comments"),
                                                                     leaves=()), properties=["NoAliasing"]))
    if "NoAliasing" not in r.violated and "TEMPORAL" not in r.violated:
        raise C.MachineryError("negative control: NoAliasing no longer refuted when the comments list is shared: " + r.tail[-500:])
    cov["negative_controls"] = ["ResetSet={} refutes Repeatable", "ResetSet without 'statement' refutes Repeatable",
                                "ResetSet without 'comments' refutes NoAliasing"]

    cov["process_level_histories"] = process_side_effects(V)
    # ---- 2. generation: all call histories of one object ----------------------------------------
    g = c15.mc(c15.consts(["a"], 1, 3, 0, gran="call", args=argn, hist=True, leaves=allacc), "C14 generation 1 object")
    hists = []
    for b in g.beh:
        hists.append([s["arg"] for s in b["hist"] if s["a"] == "StartRun"])
    hists = sorted(set(map(tuple, hists)))
    cov["call_histories"] = len(hists)

    # ---- 3. inputs ---------------------------------------------------------------------------------
    corp = K.harvest()
    inputs = [(f"special:{n}", t, c) for n, t, c in SPECIAL] + [(f"corpus:{i}", r["text"], r["ctor"]) for i, r in enumerate(corp)]
    cov["inputs"] = {"special": len(SPECIAL), "corpus": len(corp)}
    per_input = 6 if tier == "quick" else len(hists)
    # fresh-object oracle (separate process)
    jobs = [(t, c, L.ARGS[a]) for _, t, c in inputs for a in argn]
    fresh = L.solo_results(jobs)
    fresh_of = {}
    k = 0
    for i, (_, t, c) in enumerate(inputs):
        for a in argn:
            fresh_of[(i, a)] = fresh[k]
            k += 1
    tasks, meta = [], []
    for i, (name, t, c) in enumerate(inputs):
        hs = hists if per_input >= len(hists) else rnd.sample(hists, per_input)
        if name.startswith("special"):
            hs = hists if tier == "thorough" else sorted(set(hs) | set(hists[:16]))
        for h in hs:
            tasks.append((len(tasks), t, c, [L.ARGS[a] for a in h]))
            meta.append((i, h))
    res = pool.map(_hist_task, tasks, 16)
    nruns = 0
    for idx, probs, outs in res:
        i, h = meta[idx]
        for pr in probs:
            pr.update({"input": inputs[i][0], "text": inputs[i][1][:400], "ctor": inputs[i][2], "history": list(h)})
            V.mismatch(pr)
        for j, (a, got) in enumerate(zip(h, outs)):
            nruns += 1
            if got != fresh_of[(i, a)]:
                V.mismatch({"problem": "run differs from the fresh-object run with the same arguments", "input": inputs[i][0],
                            "text": inputs[i][1][:400], "ctor": inputs[i][2], "history": list(h), "run": j + 1,
                            "expected": c15._short(fresh_of[(i, a)]), "observed": c15._short(got)})
    cov["single_object_histories_replayed"] = len(tasks)
    cov["runs_compared"] = nruns

    # ---- 4. other processes / hash seeds ----------------------------------------------------------------
    jobs2 = []
    # statements of the TableFold generator (keys / uniques / references in every combination): set / dict iteration order must not show
    from .. import tf_check as TF
    from .. import tablefold as TT
    gtf = TF.mc(TF.consts(WithHist="TRUE", TypeForms="{}", Opts=TF.optset(("pk", "pk"), ("unique", "u"), ("ref", "r1")), MaxOpts=1, MaxCols=3, ItemKinds=TF.ALLITEMS,
                          ItemCols=TF.IC4, MaxItems=2, Refs='{"r2"}'), "tablefold statements for the hash-seed test")
    gsel = gtf.beh if tier == "thorough" else rnd.sample(gtf.beh, min(len(gtf.beh), 400))
    for b in gsel:
        jobs2.append((TT.render(b["hist"], seed) + "\n", {}, {"json_dump": True}))
    states += gtf.distinct
    trans += gtf.generated
    for _, t, c in inputs:
        jobs2.append((t, c, {"json_dump": True}))
        jobs2.append((t, c, {"group_by_type": True, "json_dump": True, "output_mode": "snowflake"}))
    seeds = [0, 1, 4242] if tier == "quick" else [0, 1, 2, 3, 4242, 99991]
    digs = [fresh_process_digests(jobs2, hs) for hs in seeds]
    for j, job in enumerate(jobs2):
        vals = {json.dumps(d[j]) for d in digs}
        if len(vals) > 1:
            V.mismatch({"problem": "result differs between processes / hash seeds", "text": job[0][:400], "ctor": job[1],
                        "args": job[2], "per_seed": {str(s): d[j] for s, d in zip(seeds, digs)}})
    cov["hash_seed_processes"] = {"seeds": seeds, "jobs_each": len(jobs2)}

    # ---- 5. two-object call histories, with events validated by TLC ---------------------------------------
    tr_batches = {}
    n_two = 0
    did = L.DigestIds()
    for v in (0, 1, 2):
        objs, ns, mr = ["a", "b"], 2, 2
        g2 = c15.mc(c15.consts(objs, ns, mr, v, gran="call", hist=True, leaves=("comments",)), "C14 generation 2 objects")
        behs = g2.beh if tier == "thorough" else rnd.sample(g2.beh, min(len(g2.beh), 40))
        solos = c15.solo_table(objs, ns, [v], ["A1"])
        progs = {o: L.programme(o, ns, v) for o in objs}
        st = L.solo_trace_tables(progs, {o: [{}] for o in objs})
        tks = [(b["hist"], objs, ns, v, {o: ["A1"] * mr for o in objs}) for b in behs]
        for b, (outs, events, drift) in zip(behs, pool.map(c15._replay_task, tks, 4)):
            n_two += 1
            for o in objs:
                for i, got in enumerate(outs[o]):
                    if got != solos[(o, ns, v, "A1")]:
                        V.mismatch({"problem": "two-object history: run differs from solo run", "object": o, "run": i + 1,
                                    "schedule": [f"{s['a']}({s['o']})" for s in b["hist"]],
                                    "expected": c15._short(solos[(o, ns, v, 'A1')]), "observed": c15._short(got)})
            tr_batches.setdefault(v, []).append({
                "solo": {o: [did(x) for x in st[o]["stmts"]] + [0] * (ns + 1) for o in objs},
                "solorun": {o: (did(st[o]["run"][0]) if st[o]["run"] else 0) for o in objs},
                "ev": L.to_trace(events, did)})
    n_valid = 0
    drift = 0
    for v, trs in tr_batches.items():
        cs = c15.consts(["a", "b"], 2, 2, v, gran="call", leaves=("comments",))
        acc, rej, r = T.validate("TraceLifecycle", trs, cs, strict=False)
        n_valid += len(acc)
        states += r.distinct
        trans += r.generated
        for p in rej:
            tr = trs[p["tid"] - 1] if p.get("tid") else None
            V.mismatch({"problem": "recorded execution rejected by the specification", "variant": v,
                        "failing_event": tr["ev"][p["line"] - 1] if tr and p.get("line") else p,
                        "prefix": [f"{e['event']}({e['o']})" for e in tr["ev"][:p["line"]]] if tr and p.get("line") else None})
        acc2, rej2, _ = T.validate("TraceLifecycle", trs, cs, strict=True)
        drift += len(rej2)
    cov["model_drift"] = {"strict_only_rejections": drift}

    # ---- calls without dump leave the file system as it was -------------------------------------------------------------------------
    fst = [(h, k) for h in ("run", "run_group", "file", "file_dump_false", "cli_no_dump") for k in ("none", "missing", "nested", "existing")]
    for t_, pr in zip(fst, C.pool().map(_fs_task, fst, 1)):
        if pr:
            V.mismatch(dict(pr, input="in/a.sql"), paths=["file_system"])
    cov["no_dump_file_system_cases"] = len(fst)
    for pr in C.pool().map(_settings_task, [0], 1)[0]:
        V.mismatch(pr, paths=["arguments"])
    # ---- the end-to-end composition (spec/System.tla): run() twice on the same object, every script of <= 2 statements, all flags
    from .. import sys_check as SY
    sc, ss, st, sn = SY.leg(V, tier, seed, "C14: run() twice, <=2 statements of 15 kinds, silent and raising, flat and grouped", SY.ALL_KINDS, MaxStmts=2 if tier == "quick" else 3,
                            Silents=SY.bset([True, False]), Groups=SY.bset([False, True]), MaxRuns=2, cap=3000 if tier == "quick" else 30000,
                            negative=("rerun_accumulates", "Repeat", {"MaxStmts": 2}))
    cov_system = sc
    states += ss
    trans += st
    rc = V.finish()
    cov["system_composition"] = cov_system
    cov.update({"states": states, "transitions": trans,
                "traces_validated_against_impl": len(tasks) + n_two + n_valid,
                "two_object_histories_replayed": n_two, "recorded_traces_accepted_by_TLC": n_valid,
                "samples": [{"history": list(hists[5]), "args": {a: L.ARGS[a] for a in argn}, "input": SPECIAL[0][1]},
                            {"history": list(hists[-1]), "input": SPECIAL[2][1]}],
                "exhaustive": True})
    C.write_evidence(PID, tier, seed, cov, time.time() - t0, len(V.viol),
                     ["fresh-object oracle computed in a throw-away process", "inputs: regression corpus harvested from the "
                      "working tree + 15 state-leaving scripts", "TLC, PLY, CPython trusted"])
    return rc


def replay(path):
    return C.generic_replay(path)
