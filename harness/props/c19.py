"""C19 File, dump and command-line entry points agree with the in-memory API.

Decided by spec/EntryPoints.tla: ReturnsApi, DumpNameAndContent, NoDumpWritesNothing, DirModeIsPerFile are model-checked
over every history of <= 2-3 operations {parse_from_file, sdp <file>, sdp <dir>} x dump / --no-dump x target directory
{missing, existing, nested} over a pool of file-name forms (a.sql, a.b.c.sql, no extension, .ddl/.hql/.bql, .txt,
trailing dot), and DirModeIsPerFile must be refuted for the `second_part` extension rule.  Every state of the generation
configuration is replayed in a scratch directory (outside /repo and /verif, removed afterwards) through the real
parse_from_file, cli.main() and (thorough) the installed `sdp` executable: return values must equal
DDLParser(decoded text, **settings).run(**args), and the files on disk must be exactly those of the TLC state, each
holding the JSON of the API result.
"""
import contextlib
import io
import json
import os
import random
import shutil
import subprocess
import sys
import tempfile
import time

from .. import common as C

PID = "C19"
CONTENT = {
    "c1": "CREATE TABLE users (id int PRIMARY KEY, name varchar(30) NOT NULL DEFAULT 'x');\n",
    "c2": "CREATE TABLE s1.a (x int, y decimal(10,2));\nCREATE SEQUENCE s1.sq START 1;\nALTER TABLE s1.a ADD UNIQUE (x);\n-- trailing comment\n",
    "c4": "/* legacy section\n-- end of legacy section */\nCREATE TABLE keep_me (id int, note varchar(10)); -- trailing\n-- whole line\n# hash line\nCREATE TABLE second (x int);\n",
    # characters str.splitlines() breaks at but the parser treats as ordinary text (form feed, vertical tab, FS/GS/RS, NEL, U+2028/9)
    "c5": "CREATE TABLE p1 (a int, note varchar(10) COMMENT 'a\x0cb\x0bc');\x0c\nCREATE TABLE p2 (x int); -- c\u2028d \x85 e\nCREATE TABLE p3 (y int DEFAULT 1);\x1c\n-- \u2029 \x1d\x1e\nCREATE TABLE p4 (z int);\n",
    # statements the grammar does not know between supported ones: skipped by the API (default settings) and therefore by the command line, -v or not
    "c6": "CREATE TABLE u1 (a int);\nCREATE TRIGGER trg1 AFTER INSERT ON u1 FOR EACH ROW EXECUTE PROCEDURE f1();\nMERGE INTO u1 USING u2 ON (u1.a = u2.a) WHEN MATCHED THEN UPDATE SET a = 1;\nCREATE TABLE u2 (b int);\n",
    "c3": "CREATE TABLE \"T\" (\"Id\" int, note varchar(10) COMMENT 'café да') STORED AS PARQUET;\n",
}
FILES = [("a.sql", "c1"), ("m.b.c.sql", "c2"), ("noext", "c1"), ("x.ddl", "c4"), ("y.hql", "c3"), ("z.bql", "c1"), ("w.txt", "c2"), ("k.json", "c1"),
         ("v.1.ddl", "c3"), ("my tables.sql", "c1"), ("a+b(1)@x.ddl", "c5"), ("[q] 'r'.sql", "c2"),
         ("a.txt", "c4"), ("unsupported_inside.sql", "c6"), ("current.sql", "c2")]      # same stem as a.sql, not accepted by directory mode: single-file dumps overwrite a_schema.json with a result of another length
ENCODINGS = {"c6": ["utf-8", "utf-16"], "c5": ["utf-8", "utf-16"], "c4": ["utf-8", "utf-16", "latin-1"], "c1": ["utf-8", "utf-16", "latin-1", "cp1251"], "c2": ["utf-8", "utf-16", "ascii"], "c3": ["utf-8", "utf-16", "utf-8-sig"]}


# input files that are symbolic links to a file with ANOTHER base name kept outside the input directory: an entry point names its dump after
# the path it was given, not after what the link points to
LINKS = {"current.sql": "2024_07_orders.sql"}


def frec(name, content):
    parts = name.split(".")
    stem = parts[0]
    ext = parts[-1] if len(parts) >= 2 else "-"
    second = parts[1] if len(parts) >= 2 else "-"
    return f'[name |-> "{name}", stem |-> "{stem}", ext |-> "{ext}", second |-> "{second}", content |-> "{content}"]'


def consts(files, **kw):
    d = dict(Files="{" + ", ".join(frec(n, c) for n, c in files) + "}", Targets='{"missing", "existing", "nested"}', MaxOps=2,
             DirRule='"last_ext"', WithHist="FALSE")
    d.update(kw)
    return d


INV = ["NoDumpWritesNothing", "DumpNameAndContent", "DirModeIsPerFile", "ReturnsApi"]


def mc(cs, what, expect=None):
    hist = cs["WithHist"] == "TRUE"
    invs = INV + (["Emit"] if hist else [])
    if expect:
        invs = [expect]
    r = C.run_tlc_wrapped("EntryPoints", cs, dict(spec="Spec", invariants=invs, view=None if hist else "View"), workers=1 if hist else C.NCPU, timeout=900)
    if expect:
        if expect not in r.violated:
            raise C.MachineryError(f"negative control {what}: TLC no longer refutes {expect} (violated={r.violated})\n{r.tail[-500:]}")
    else:
        C.require_tlc_ok(r, what)
    return r


IN = "rel-1.2"             # the directory part of every input path contains a dot
PRE = ["", "./"]
TGT = {"missing": "out_missing", "existing": "out_existing", "nested": "deep/er/out"}
SETTINGS = [({}, "sql"), ({"normalize_names": True}, "hql"), ({}, "bigquery"), ({"silent": False}, "mysql")]


def _replay(task):
    """one behaviour in a fresh scratch directory -> list of problems"""
    beh, files, seed, use_exe = task
    lib = C._import_lib()
    from simple_ddl_parser import cli, parse_from_file
    rnd = random.Random(f"c19-{seed}-{len(beh['hist'])}")
    settings, mode = SETTINGS[seed % len(SETTINGS)]
    if settings.get("silent") is False and any(op.get("f") == "unsupported_inside.sql" for op in beh["hist"]):
        settings = {}      # (strict settings on a text with unsupported statements raise, by design: the disk model has no raising calls)
    root = tempfile.mkdtemp(prefix="verif_c19_")
    old = os.getcwd()
    probs = []
    try:
        os.chdir(root)
        os.makedirs(IN)
        os.makedirs(TGT["existing"])
        with open(os.path.join(TGT["existing"], "keep.me"), "w") as f:
            f.write("x")
        enc = {}
        for name, cid in files:
            e = rnd.choice(ENCODINGS[cid])
            enc[name] = e
            path_ = os.path.join(PRE[(seed + len(name)) % len(PRE)] + IN, name)
            if name in LINKS:
                os.makedirs(root + "_lnk", exist_ok=True)       # (outside the observed tree; removed with it)
                real_ = os.path.join(root + "_lnk", LINKS[name])
                os.symlink(real_, path_)
                path_ = real_
            with open(path_, "w", encoding=e, newline="") as f:
                f.write(CONTENT[cid])
        cid_of = dict(files)

        def api(cid, st, m, grouped=False):
            try:
                return C.jnorm(lib.DDLParser(CONTENT[cid], **st).run(output_mode=m, **({"group_by_type": True} if grouped else {})))
            except BaseException as e:  # noqa  (silent=False settings on a text with unsupported statements: the entry point must raise the same)
                return {"__raises__": type(e).__name__}

        written = {}      # dump file -> the value the call that wrote it last returned

        for op in beh["hist"]:
            t = TGT[op["t"]]
            before = _listing(root)
            if op["op"] == "parse_from_file":
                name = op["f"]
                kw = {"dump": True, "dump_path": t} if op["dump"] else {}
                grouped = (len(name) + seed + len(beh["hist"])) % 2 == 1      # every second call also asks for the grouped result
                if grouped:
                    kw["group_by_type"] = True
                ps = dict(settings) or None
                ps_before = json.dumps(ps, sort_keys=True)
                try:
                    got = parse_from_file(os.path.join(PRE[(seed + len(name)) % len(PRE)] + IN, name), encoding=enc[name], parser_settings=ps, output_mode=mode, **kw)
                except BaseException as e:  # noqa
                    if api(cid_of[name], settings, mode, grouped) != {"__raises__": type(e).__name__}:
                        probs.append({"op": op, "problem": "parse_from_file raised " + type(e).__name__ + ": " + str(e)[:200]})
                    continue
                if json.dumps(ps, sort_keys=True) != ps_before:
                    probs.append({"op": op, "problem": "parse_from_file modified the parser_settings it was given", "before": ps_before, "after": json.dumps(ps, sort_keys=True)})
                if op["dump"]:
                    written[os.path.join(t, name.split(".")[0] + "_schema.json")] = C.jnorm(got)
                want = api(cid_of[name], settings, mode, grouped)
                if C.jnorm(got) != want:
                    probs.append({"op": op, "problem": "parse_from_file result differs from DDLParser(text, **settings).run(...)", "encoding": enc[name],
                                  "expected": want, "observed": C.jnorm(got)})
            else:
                # the command reads files as utf-8: re-write the inputs it will read in utf-8
                names = [op["f"]] if op["op"] == "cli_file" else [n for n, _ in files]
                for n in names:
                    enc[n] = "utf-8"
                    with open(os.path.join(IN, n), "w", encoding="utf-8", newline="") as f:
                        f.write(CONTENT[cid_of[n]])
                argv = [os.path.join(PRE[(seed + len(op["f"])) % len(PRE)] + IN, op["f"]) if op["op"] == "cli_file" else PRE[seed % len(PRE)] + IN, "-t", t, "-o", mode]
                if not op["dump"]:
                    argv.append("--no-dump")
                elif rnd.random() < 0.5:
                    argv.append("-v")
                if use_exe:
                    env = dict(os.environ, PYTHONPATH=C.REPO)
                    p = subprocess.run([C.PY, "-m", "simple_ddl_parser.cli"] if False else [C.PY, "-c", "from simple_ddl_parser.cli import main; main()"] + argv,
                                       env=env, cwd=root, stdout=subprocess.PIPE, stderr=subprocess.PIPE, text=True)
                    out, rc = p.stdout, p.returncode
                else:
                    sav = sys.argv
                    buf = io.StringIO()
                    rc = 0
                    try:
                        sys.argv = ["sdp"] + argv
                        with contextlib.redirect_stdout(buf):
                            cli.main()
                    except SystemExit as e:
                        rc = e.code or 0
                    except BaseException as e:  # noqa
                        probs.append({"op": op, "argv": argv, "problem": "sdp raised " + type(e).__name__ + ": " + str(e)[:200]})
                        continue
                    finally:
                        sys.argv = sav
                    out = buf.getvalue()
                if rc != 0:
                    probs.append({"op": op, "argv": argv, "problem": f"sdp exit status {rc}"})
                if op["op"] == "cli_file" and ("--no-dump" in argv or "-v" in argv):
                    import pprint
                    want = pprint.pformat(lib.DDLParser(CONTENT[cid_of[op["f"]]]).run(output_mode=mode))
                    if want.strip() not in out:
                        probs.append({"op": op, "argv": argv, "problem": "printed result is not the API result", "stdout": out[:300]})
            if not op["dump"] and _listing(root) != before:
                probs.append({"op": op, "problem": "files written although no dump was requested", "new": sorted(set(_listing(root)) - set(before))})
        # final disk state vs the TLC state
        want_files = {}
        for tgt, nm, res in beh["disk"]:
            # CLI ops parse with default settings; parse_from_file with `settings`: which op wrote this file last?
            want_files[os.path.join(TGT[tgt], nm[0] + nm[1])] = res[1]
        have = {p for p in _listing(root, dirs=False) if not p.startswith(IN + "/") and not p.endswith("keep.me")}
        if have != set(want_files):
            probs.append({"problem": "files on disk differ from the specification's state", "expected": sorted(want_files), "observed": sorted(have)})
        else:
            for p, cid in want_files.items():
                try:
                    data = json.load(open(os.path.join(root, p)))
                except Exception as e:  # noqa
                    probs.append({"problem": "dump is not JSON", "file": p, "error": str(e)[:100]})
                    continue
                cands = [api(cid, {}, mode), api(cid, settings, mode)] if p not in written else [written[p]]
                # (a file written last by parse_from_file holds exactly what that call returned - flat or grouped; one written by the command
                #  line holds the default-settings result)
                if p in written and data != written[p] and data in (api(cid, {}, mode), api(cid, settings, mode)):
                    cands = [data]      # the command line wrote it after the API call
                if data not in cands:
                    probs.append({"problem": "dump content is not the JSON of the API result", "file": p, "expected": cands[0], "observed": data})
        return probs
    finally:
        os.chdir(old)
        shutil.rmtree(root, ignore_errors=True)
        shutil.rmtree(root + "_lnk", ignore_errors=True)


def _listing(root, dirs=True):
    """files, and (dirs=True) directories as `name/`: a call without dump must not even create the target directory"""
    out = []
    for d, ds, fs in os.walk(root):
        for f in fs:
            out.append(os.path.relpath(os.path.join(d, f), root))
        if dirs:
            for x in ds:
                out.append(os.path.relpath(os.path.join(d, x), root) + "/")
    return sorted(out)


def run(tier, seed):
    t0 = time.time()
    V = C.Verdict(PID)
    thorough = tier == "thorough"
    cov = {"model_checked": []}
    r = mc(consts(FILES, MaxOps=2), "9 files x 3 ops x 3 targets, 2 operations")
    states, trans = r.distinct, r.generated
    cov["model_checked"].append({"config": "9 name forms, histories of 2 operations", "distinct_states": r.distinct})
    if thorough:
        r3 = mc(consts(FILES[:5], MaxOps=3), "5 files, 3 operations")
        states += r3.distinct
        trans += r3.generated
    mc(consts(FILES, MaxOps=1, DirRule='"second_part"'), "extension = second dot-part", expect="DirModeIsPerFile")
    cov["negative_controls"] = ["DirRule=second_part refutes DirModeIsPerFile"]
    files = FILES
    g = mc(consts(files, MaxOps=2, WithHist="TRUE", Targets='{"missing", "existing", "nested"}'), "generation")
    behs = [b for b in g.beh if b["hist"]]
    rnd = random.Random(seed)
    if not thorough and len(behs) > 3000:
        ones = [b for b in behs if len(b["hist"]) == 1]
        twos = [b for b in behs if len(b["hist"]) == 2]
        behs = ones + rnd.sample(twos, 3000 - len(ones))
    tasks = [(b, files, seed + i, thorough and i % 10 == 0) for i, b in enumerate(behs)]
    res = C.pool().map(_replay, tasks, 8)
    for (b, _, sd, _), probs in zip(tasks, res):
        for p in probs:
            p["history"] = [f"{o['op']}({o['f']}, dump={o['dump']}, {o['t']})" for o in b["hist"]]
            V.mismatch(p)
    rc = V.finish()
    cov.update({"states": states, "transitions": trans, "traces_validated_against_impl": len(tasks), "behaviours_total": len(g.beh),
                "samples": [{"history": behs[len(behs) // 2]["hist"], "expected_disk": behs[len(behs) // 2]["disk"]}], "exhaustive": thorough})
    C.write_evidence(PID, tier, seed, cov, time.time() - t0, len(V.viol),
                     ["scratch directories under the system temp dir, removed after each behaviour", "the command is run through cli.main() in process "
                      "(thorough: also in a fresh interpreter)", "encodings drawn per file from those that can encode its content", "TLC, CPython trusted"])
    return rc


def replay(path):
    return C.generic_replay(path)
