"""C08 Comments never change what is parsed and are reported separately.

Decided by spec/Assembler.tla (parser.py's line assembler and comment scanner transcribed line by line, validated against
the real parser's per-statement events: no drift): NoCommentInCode, SubmittedExact, CleanBoundary, CommentsFromSource are
model-checked over every insertion of <= 1 (2) comments of the eight styles (whole-line --, #, /* */, 2- and 3-line
blocks, trailing --, trailing /* */, trailing block opener; indented or not; text with or without `--`) at every line
position of every script of <= 2 statements drawn from 7 statement shapes, and must be refuted on defective scanners.
Every complete behaviour is rendered (comment texts full of keywords, commas, parentheses, semicolons) and parsed by the
real library: the entities must be those of the comment-free statements TLC lists, every reported comment item must be
(part of) one source comment, in source order, and contain no code.  Deviations TLC itself tags from the SOURCE lines
(indented multi-line block, `--` inside a block comment) are KNOWN-FINDINGs.
"""
import json
import random
import time

from .. import common as C
from .. import assembler as A
from .. import asm_check as F

PID = "C08"
SK = [("table", 2), ("table", 3), ("seq", 1), ("unsup", 2), ("insert", 2), ("set", 1), ("alter", 1)]


# comment lines that LOOK like another comment style inside a block comment; (text, tables expected)
SPECIAL = [("/* legacy\n-- end of legacy section */\nCREATE TABLE k1 (id int, note varchar(10));\n", [("k1", ["id", "note"])]),
           ("/* a\n# b\n-- c\nd */\nCREATE TABLE k1 (id int);\nCREATE TABLE k2 (id int);\n", [("k1", ["id"]), ("k2", ["id"])]),
           ("CREATE TABLE k1 (\nid int,\n/* x\n-- y */\nnote varchar(10)\n);\n", [("k1", ["id", "note"])]),
           ("/*\n--\n*/\nCREATE TABLE k1 (id int);\n", [("k1", ["id"])]),
           ("-- a\n--b\n#c\nCREATE TABLE k1 (id int); -- d\n--e\nCREATE TABLE k2 (\n--f\nid int -- g (\n#h )\n);\n", [("k1", ["id"]), ("k2", ["id"])]),
           ("CREATE TABLE k1 (id int -- 1) key\n, note varchar(10) /* (( */\n)\nCREATE TABLE k2 (id int)\n", [("k1", ["id", "note"]), ("k2", ["id"])])]


def _file_and_text(text):
    """the same text through DDLParser(text).run() and through parse_from_file: -> (outcome, outcome)"""
    import tempfile
    import os
    lib = C._import_lib()
    outs = []
    for how in ("text", "file"):
        try:
            if how == "text":
                r = lib.DDLParser(text).run()
            else:
                with tempfile.NamedTemporaryFile("w", suffix=".sql", delete=False, encoding="utf-8") as f:
                    f.write(text)
                try:
                    r = lib.parse_from_file(f.name)
                finally:
                    os.unlink(f.name)
            outs.append(("ok", C.jnorm(r)))
        except BaseException as e:  # noqa
            outs.append(("exc", type(e).__name__, str(e)[:200]))
    return outs


def judge(V, behs, res, seed, what):
    ndrift = nbad = 0
    for b, (text, out, subs) in zip(behs, res):
        tags = F.spec_tags(b, seed)
        if F.drift(b, subs, seed) and not tags:
            ndrift += 1
        paths = []
        got = None
        if out[0] != "ok":
            paths, got = ["raised"], out[1:3]
        else:
            ents, coms = A.project_entities(out[1])
            exp = A.expected_entities(b, b["stmts"])
            e2 = [e for e in ents if e["kind"] != "set"]
            if e2 != exp:
                paths.append("entities")
            if len([e for e in ents if e["kind"] == "set"]) != b["nset"]:
                paths.append("ddl_properties")
            paths += A.comment_problems(coms, b, b["stmts"], seed)
            got = {"entities": e2, "comments": coms}
        if paths:
            nbad += 1
            V.mismatch({"what": what, "ddl": text, "paths": paths, "expected": A.expected_entities(b, b["stmts"]), "observed": got,
                        "spec_dev": sorted(tags)}, tags=tags, paths=paths)
    return ndrift, nbad


def run(tier, seed):
    t0 = time.time()
    F.guard_on()
    rnd = random.Random(seed)
    V = C.Verdict(PID)
    thorough = tier == "thorough"
    cov = {"model_checked": [], "generation": []}
    states = trans = 0
    cfgs = [("<=2 statements of 7 shapes, 1 comment of 8 styles", F.consts(SK, MaxStmts=2, CmStyles=F.ALLCM, MaxCm=1)),
            ("one 2- or 3-line table, 2 comments", F.consts([("table", 3), ("table", 2)], MaxStmts=1, CmStyles=F.ALLCM, MaxCm=2)),
            ("<=2 statements of 4 shapes, 1 comment, indented or not, text with or without --",
             F.consts(SK[:4], MaxStmts=2, CmStyles=F.ALLCM, MaxCm=1, Indents="{FALSE, TRUE}", DashInText="{FALSE, TRUE}"))]
    NS = [("tablens", 2), ("tablens", 3), ("table", 2), ("seq", 1), ("alter", 1), ("view", 1)]
    cfgs.append(("<=2 statements, tables written without `;` among them, 1 comment of 8 styles", F.consts(NS, MaxStmts=2, CmStyles=F.ALLCM, MaxCm=1)))
    cfgs.append(("two unterminated tables, 2 comments", F.consts(NS[:2], MaxStmts=2, CmStyles='{"dash","hash","blk1","tdash","tblk1"}', MaxCm=2)))
    if thorough:
        cfgs.append(("3 statements with unterminated tables, 2 comments", F.consts(NS[:5], MaxStmts=3, CmStyles=F.ALLCM, MaxCm=2)))
        cfgs.append(("<=2 statements, 2 comments", F.consts(SK[:5], MaxStmts=2, CmStyles=F.ALLCM, MaxCm=2)))
        cfgs.append(("3 statements, 1 comment", F.consts(SK, MaxStmts=3, CmStyles=F.ALLCM, MaxCm=1)))
    for what, cs in cfgs:
        r = F.mc(cs, what, timeout=1800)
        states += r.distinct
        trans += r.generated
        cov["model_checked"].append({"config": what, "distinct_states": r.distinct, "wall_s": round(r.wall, 1)})
    F.mc(F.consts([("table", 2)], MaxStmts=1, CmStyles='{"block3"}', MaxCm=1, Variant='"mlc_sticky"'), "multi-line flag never cleared", expect="SubmittedExact")
    F.mc(F.consts([("table", 2)], MaxStmts=1, CmStyles='{"dash"}', MaxCm=1, Variant='"dash_line_kept"'), "whole-line -- comment kept as code", expect="NoCommentInCode")
    cov["negative_controls"] = ["Variant=mlc_sticky refutes SubmittedExact", "Variant=dash_line_kept refutes NoCommentInCode"]
    total = 0
    tot_drift = 0
    sample = None
    for what, cs in cfgs:
        g = F.mc(dict(cs, WithHist="TRUE"), "generation " + what, timeout=1800)
        behs = g.beh
        if not thorough and len(behs) > 6000:
            behs = rnd.sample(behs, 6000)
        res = C.pool().map(F._replay, [(b, seed, {}, {}, True) for b in behs], 32)
        nd, nb = judge(V, behs, res, seed, what)
        tot_drift += nd
        total += len(behs)
        tags = {}
        for b in behs:
            for tg in F.spec_tags(b, seed):
                tags[tg] = tags.get(tg, 0) + 1
        cov["generation"].append({"config": what, "behaviours": len(g.beh), "replayed": len(behs), "mismatches": nb, "spec_dev_tags": tags})
        if sample is None:
            b = next(x for x in behs if len(x["lines"]) >= 5 and not x["dev"])
            sample = {"lines": b["lines"], "ddl": A.render(b, b["stmts"], seed), "expected": A.expected_entities(b, b["stmts"])}
    if thorough:
        g = F.mc(F.consts(SK, MaxStmts=4, CmStyles=F.ALLCM, MaxCm=3, WithHist="TRUE"), "simulation: <=4 statements, <=3 comments", timeout=3000,
                 simulate="num=20000", depth=30, seed=seed + 9)
        ub = list({repr(b["lines"]): b for b in g.beh}.values())
        res = C.pool().map(F._replay, [(b, seed, {}, {}, True) for b in ub], 32)
        nd, nb = judge(V, ub, res, seed, "simulation")
        tot_drift += nd
        total += len(ub)
        cov["generation"].append({"config": "simulation (<=4 statements, <=3 comments)", "replayed": len(ub), "mismatches": nb})
    # ---- strict mode: comments do not turn supported DDL into an error (silent=False must return what silent=True returns) --------------------
    sup_kinds = {"table", "tablens", "seq", "set", "alter", "serde", "alter_rn"}
    sb = [b for b in locals().get("behs", []) if not F.spec_tags(b, seed) and all(s_["k"] in sup_kinds for s_ in b["stmts"])]
    sb = rnd.sample(sb, min(len(sb), 3000 if thorough else 700))
    st_tasks = [(A.render(b, b["stmts"], seed), c_, {}) for b in sb for c_ in ({}, {"silent": False})]
    st_outs, _ = C.parse_many(st_tasks)
    for i_, b in enumerate(sb):
        a_, s_ = st_outs[2 * i_], st_outs[2 * i_ + 1]
        if a_[0] == "ok" and s_ != a_:
            V.mismatch({"what": "strict mode (silent=False) on a commented script of supported statements", "ddl": st_tasks[2 * i_][0], "paths": ["strict_mode"],
                        "expected": A.expected_entities(b, b["stmts"]), "observed": s_[:3] if s_[0] != "ok" else "another result"}, paths=["strict_mode"])
    total += len(sb)
    cov["strict_mode_scripts"] = len(sb)
    # ---- the file entry point reads the same comments the same way -------------------------------------------------------------
    fb = [b for cfgb in [locals().get("behs", [])] for b in cfgb if not F.spec_tags(b, seed)]
    fb = rnd.sample(fb, min(len(fb), 1500 if thorough else 300))
    ftexts = [(A.render(b, b["stmts"], seed), [(e["name"], e["cols"]) for e in A.expected_entities(b, b["stmts"]) if e["kind"] == "table"], True) for b in fb]
    ftexts += [(t, exp, False) for t, exp in SPECIAL]
    fres = C.pool().map(_file_and_text, [t for t, _, _ in ftexts], 16)
    for (t, exp, gen), (ot, of) in zip(ftexts, fres):
        for how, o in (("DDLParser(text)", ot), ("parse_from_file", of)):
            got = [(e["table_name"], [c["name"] for c in e["columns"]]) for e in o[1] if "table_name" in e and e.get("columns")] if o[0] == "ok" else o
            if got != [(n, list(c)) for n, c in exp]:
                V.mismatch({"what": "comment lines shaped like other comment styles / file entry point", "entry": how, "ddl": t, "paths": ["entities"],
                            "expected": [{"kind": "table", "name": n, "cols": c, "uniq": []} for n, c in exp], "observed": got}, paths=["entities"])
        if ot != of:
            V.mismatch({"what": "parse_from_file and DDLParser(text) read the comments of the same text differently", "ddl": t, "paths": ["entry_points"],
                        "expected": [{"kind": "table", "name": n, "cols": c, "uniq": []} for n, c in exp], "observed": {"text": ot, "file": of}}, paths=["entry_points"])
    total += len(ftexts)
    cov["file_entry_point"] = {"generated_scripts": len(fb), "special_scripts": len(SPECIAL)}
    # ---- code -> spec: the real assembler's per-line events on the regression corpus, validated by TLC --------------------------
    from .. import corpus as CP
    from .. import trace_asm as TA
    corp = CP.harvest()
    traces = TA.record([(r["text"], r["ctor"]) for r in corp])
    nacc, rej, rt = TA.validate(traces, strict=False)
    for i, line, model in rej:
        V.mismatch({"what": "recorded execution rejected by spec/TraceAssembler.tla (comment items)", "ddl": corp[i]["text"][:1200], "line": line,
                    "logged": traces[i][line - 1]["st"] if line else None, "model": model}, paths=["trace"])
    nacc2, rej2, rt2 = TA.validate(traces, strict=True)
    # the binding is demonstrated on every run: one corrupted field must be rejected
    import copy
    long_enough = [t for t in traces if len(t) >= 3]
    if long_enough:      # (no events at all = the guarded hooks are not in this tree: trace validation skipped, not a verdict)
        bad = copy.deepcopy(long_enough[0])
        bad[1]["st"]["ncomments"] += 1
        _, rejb, _ = TA.validate([bad], strict=False)
        if not rejb:
            raise C.MachineryError("trace validation accepted a corrupted trace: the binding is vacuous")
    states += (rt.distinct if rt else 0) + (rt2.distinct if rt2 else 0)
    trans += (rt.generated if rt else 0) + (rt2.generated if rt2 else 0)
    cov["corpus_traces"] = {"scripts": len(traces), "lines": sum(len(t) for t in traces), "accepted": nacc, "rejected": len(rej),
                            "strict_only_rejections (model drift)": len(rej2) - len(rej), "corrupted_trace_rejected": bool(long_enough)}
    total += nacc
    rc = V.finish()
    cov.update({"states": states, "transitions": trans, "traces_validated_against_impl": total,
                "model_drift": {"behaviours_where_the_grammar_received_other_statements_than_the_model_submitted": tot_drift},
                "samples": [sample], "exhaustive": thorough, "known_findings_met": V.hits})
    C.write_evidence(PID, tier, seed, cov, time.time() - t0, len(V.viol),
                     ["comment texts are quote-free pool entries full of keywords and punctuation", "scripts end with a line break",
                      "TLC, PLY, CPython trusted"])
    return rc


def replay(path):
    d = json.load(open(path))
    bad = 0
    lib = C._import_lib()
    for v in d["violations"]:
        try:
            ents, coms = A.project_entities(C.jnorm(lib.DDLParser(v["ddl"]).run()))
            ok = [e for e in ents if e["kind"] != "set"] == v["expected"]
        except Exception:
            ok = False
        print(("passes now  " if ok else "STILL-FAILS ") + v["ddl"].replace("\n", " | ")[:200])
        bad += not ok
    return 1 if bad else 0
