"""C05 Parsing is invariant under keyword case, whitespace and line layout.

Decided by spec/Scanner.tla (layout mode): GapIrrelevant and CaseBlind - the scanned token sequence is the statement's skeleton
whatever gap class follows each token and whatever case each keyword is written in - with the property's own provisos as guards
of the environment (no gap only next to punctuation, no line break directly before a statement-level word that does not start
the statement, terminator at the end of its line), and spec/Lexer.tla for case-blind keyword lookup.  TLC enumerates every layout
with <= 1 (2) non-canonical choices over gap classes {3 spaces, tab, LF, CRLF, empty line, none} x boundary and case {lower,
mixed} x keyword, from an all-upper and from an all-lower / all-mixed base, for a catalogue of statement skeletons of the four
families (CREATE TABLE incl. dialect clauses, ALTER TABLE kinds, CREATE INDEX, CREATE SEQUENCE).  Every layout is rendered and
parsed by the real library: the result must equal the canonical rendering's.  Regression-corpus scripts are re-laid-out whole
(LF -> CRLF, blank lines, tabs for indentation).  Layouts TLC tags as deviations are KNOWN-FINDINGs when listed.
"""
import json
import random
import re
import time

from .. import common as C
from .. import corpus as CP

PID = "C05"
GAP = {"sp": " ", "sp3": "   ", "tab": "\t", "nl": "\n", "crlf": "\r\n", "blank": "\n\n", "none": ""}
PRE = "CREATE TABLE s1.t1 (a int, b int, c int);\n"


def sk(text):
    """skeleton from a compact notation: words separated by spaces; prefixes  k: keyword  d: ASC/DESC  c: CHARSET  s: statement-level word
    inside a statement  l: literal  (punctuation and everything else are recognised by themselves)"""
    out = []
    for w in text.split(" "):
        if w in ("(", ")", ",", ";", ".", "="):
            out.append(({"(": "lp", ")": "rp", ",": "comma", ";": "semi", ".": "dot", "=": "eq"}[w], w))
        elif w[:2] in ("k:", "d:", "c:", "s:", "l:"):
            out.append(({"k": "kw", "d": "kwdir", "c": "kwcs", "s": "stmtword", "l": "lit"}[w[0]], w[2:].replace("~", " ")))
        elif re.fullmatch(r"-?\d+", w):
            out.append(("num", w))
        else:
            out.append(("id", w))
    return out


SKELETONS = {
    "table": ("", sk("k:CREATE k:TABLE s1 . t1 ( a int k:NOT k:NULL k:DEFAULT l:'x~y' , b varchar ( 10 ) k:PRIMARY k:KEY , c decimal ( 10 , 2 ) "
                     "k:REFERENCES o ( id ) k:ON s:DELETE CASCADE , k:CONSTRAINT k1 k:UNIQUE ( a , c ) ) ;")),
    "table_fk": ("", sk("k:CREATE k:TABLE t1 ( a int k:REFERENCES o ( id ) k:ON k:UPDATE CASCADE k:ON s:DELETE RESTRICT , b int k:DEFAULT 5 k:NOT k:NULL , "
                        "k:FOREIGN k:KEY ( b ) k:REFERENCES p ( y ) k:ON k:UPDATE CASCADE ) ;")),
    "table_generated": ("", sk("k:CREATE k:TABLE t1 ( a int , b int k:GENERATED k:ALWAYS k:AS ( a * 2 ) k:STORED , c int k:NOT k:NULL ) ;")),
    "table_mysql_glued": ("", sk("k:CREATE k:TABLE t1 ( a int ) COMMENT='orders' ENGINE=InnoDB COLLATE='utf8_bin' ;")),
    "table_mysql_glued2": ("", sk("k:CREATE k:TABLE t1 ( a int ) ENGINE=InnoDB k:COMMENT l:'tbl' ;")),
    "table_if": ("", sk("k:CREATE k:TABLE k:IF k:NOT k:EXISTS s1 . t1 ( a int , b int ) ;")),
    "table_items": ("", sk("k:CREATE k:TABLE t1 ( a int k:UNIQUE , b int k:NULL k:CHECK ( b > 1 ) , k:PRIMARY k:KEY ( a ) , k:FOREIGN k:KEY ( b ) k:REFERENCES o ( x ) ) ;")),
    "table_mysql": ("", sk("k:CREATE k:TABLE t1 ( a int k:COMMENT l:'c~1' ) k:ENGINE = InnoDB k:DEFAULT c:CHARSET = utf8 ;")),
    "table_hql": ("", sk("k:CREATE k:EXTERNAL k:TABLE k:IF k:NOT k:EXISTS t1 ( a int , b string ) k:PARTITIONED k:BY ( p date ) k:STORED k:AS PARQUET k:LOCATION l:'s3://x/y' ;")),
    "alter_fk": (PRE, sk("k:ALTER k:TABLE s1 . t1 k:ADD k:CONSTRAINT fk1 k:FOREIGN k:KEY ( a ) k:REFERENCES o ( id ) ;")),
    "alter_fk_update": (PRE, sk("k:ALTER k:TABLE s1 . t1 k:ADD k:FOREIGN k:KEY ( a ) k:REFERENCES o ( id ) k:ON k:UPDATE CASCADE ;")),
    "alter_drop": (PRE, sk("k:ALTER k:TABLE s1 . t1 s:DROP k:COLUMN a ;")),
    "alter_rename": (PRE, sk("k:ALTER k:TABLE s1 . t1 k:RENAME k:COLUMN a k:TO z ;")),
    "alter_modify": (PRE, sk("k:ALTER k:TABLE s1 . t1 k:MODIFY k:COLUMN a bigint ;")),
    "alter_unique": (PRE, sk("k:ALTER k:TABLE s1 . t1 k:ADD k:UNIQUE ( a , b ) ;")),
    "alter_default": (PRE, sk("k:ALTER k:TABLE s1 . t1 k:ADD k:CONSTRAINT d1 k:DEFAULT 0 k:FOR a ;")),
    "alter_check": (PRE, sk("k:ALTER k:TABLE s1 . t1 k:ADD k:CHECK ( a > 0 ) ;")),
    "alter_pk": (PRE, sk("k:ALTER k:TABLE s1 . t1 k:ADD k:PRIMARY k:KEY ( a ) ;")),
    "index": (PRE, sk("k:CREATE k:UNIQUE k:INDEX i1 k:ON s1 . t1 ( a d:DESC , b d:ASC ) ;")),
    "sequence": ("", sk("k:CREATE k:SEQUENCE s1 . sq k:INCREMENT k:BY 2 k:START k:WITH 5 k:MINVALUE 1 k:NO k:MAXVALUE k:CACHE 10 ;")),
}


def case_of(w, c):
    if c in ("-", "upper"):
        return w if c == "-" else w.upper()
    if c == "lower":
        return w.lower()
    return "".join(ch.upper() if i % 2 == 0 else ch.lower() for i, ch in enumerate(w))


def render(name, gaps, cases):
    pre, toks = SKELETONS[name]
    out = []
    for (kind, w), g, c in zip(toks, gaps, cases):
        out.append(case_of(w, c) + GAP[g])
    return pre + "".join(out).rstrip(" ") + "\n"


def canonical(name, base="upper"):
    _, toks = SKELETONS[name]
    return render(name, ["sp"] * len(toks), [base if k in ("kw", "kwdir", "kwcs", "stmtword") else "-" for k, _ in toks])


def tla_skeleton(name):
    return "<<" + ", ".join(f'"{k}"' for k, _ in SKELETONS[name][1]) + ">>"


def consts(name, **kw):
    d = dict(Skeletons="<<" + tla_skeleton(name) + ">>", Gaps='{"sp","sp3","tab","nl","crlf","blank","none"}', Cases='{"upper","lower","mixed"}', CaseBase='"upper"',
             MaxOdd=1, LitClasses="{}", MaxLit=0, Mode='"layout"', WithHist="FALSE")
    d.update(kw)
    return d


def mc(cs, what, kinds_of=None, base="upper"):
    """kinds_of: list (by skeleton index) of kind lists - used to expand each behaviour's odd choices into full gap / case arrays"""
    hist = cs["WithHist"] == "TRUE"
    r = C.run_tlc_wrapped("Scanner", cs, dict(spec="Spec", invariants=["GapIrrelevant", "CaseBlind"] + (["Emit"] if hist else [])),
                          workers=1 if hist else 4, timeout=900)
    C.require_tlc_ok(r, what)
    if kinds_of is not None:
        for b in r.beh:
            kinds = kinds_of[b["sk"] - 1]
            b["gaps"] = ["sp"] * len(kinds)
            b["cases"] = [base if k in KWKINDS else "-" for k in kinds]
            for o in b["odds"]:
                if o["what"] == "gap":
                    b["gaps"][o["pos"] - 1] = o["val"]
                else:
                    b["cases"][o["pos"] - 1] = o["val"]
    return r


KWKINDS = {"kw", "kwdir", "kwcs", "stmtword", "kwdev_dir", "kwdev_autoinc", "kwdev_clustered", "kwdev_key"}


def ci(x):
    """results compared with value words case-folded only where the skeleton varies their case: nothing (value words are not varied)"""
    return x


# ---- skeletons taken from the regression corpus ------------------------------------------------------------------------------------
# words whose letter case the grammar must not care about: the lexer's keyword tables and the words the productions compare by
# spelling, frozen from the pinned tree (value words such as storage formats / referential actions are NOT in it)
CORPUS_KW = set("""ADD ALTER AS ASC AUTOINCREMENT AUTO_INCREMENT BY CACHE CHECK CLUSTER CLUSTERED COLLATE COLUMN COMMENT CONSTRAINT CREATE
DEFAULT DEFERRABLE DESC DROP ENCODE ENFORCED EXISTS EXTERNAL FOR FOREIGN GENERATED IF INCREMENT INDEX INITIALLY INTO KEY LIKE LOCATION MAXVALUE
MINVALUE MODIFY NO NOORDER NOT NULL ON OPTIONS OR ORDER PARTITION PARTITIONED PRIMARY REFERENCES RENAME REPLACE SEQUENCE START STORED TABLE
TABLESPACE TBLPROPERTIES TEMPORARY TERMINATED TO UNIQUE UPDATE USING WITH ALWAYS""".split())
NAME_AFTER = {"TABLE", "INDEX", "SEQUENCE", "CONSTRAINT", "COLUMN", "REFERENCES", "ON", "TO", "EXISTS", "SCHEMA", "TYPE", "DOMAIN", "DATABASE", "TABLESPACE"}
OPENERS = {"LIKE", "CONSTRAINT", "FOREIGN", "PRIMARY", "INDEX", "UNIQUE", "CHECK", "WITH", "CLUSTER", "BY", "KEY"}
STMT_WORDS = {"CREATE", "ALTER", "DROP", "SET", "GO", "USE", "INSERT", "GRANT", "DELETE"}
HEAD = re.compile(r"^\s*(CREATE|ALTER)\b", re.I)


def chunks(text):
    """white-space separated chunks outside quotes, with the separator that follows each -> [(chunk, sep)]"""
    out, cur, sep, q = [], "", "", None
    i = 0
    res = []
    while i < len(text):
        ch = text[i]
        if q:
            cur += ch
            if ch == q:
                q = None
        elif ch in "'\"`":
            cur += ch
            q = ch
        elif ch.isspace():
            j = i
            while j < len(text) and text[j].isspace():
                j += 1
            if cur:
                res.append([cur, text[i:j]])
                cur = ""
            elif res:
                res[-1][1] += text[i:j]
            else:
                res.append(["", text[i:j]])
            i = j
            continue
        else:
            cur += ch
        i += 1
    if cur:
        res.append([cur, ""])
    return res


def corpus_skeletons(corp):
    """-> list of (script index, chunks, kinds)"""
    out = []
    for i, r in enumerate(corp):
        t = r["text"].replace("\r\n", "\n")
        if "/*" in t or "--" in t or "#" in t or "\t" in t or not HEAD.match(t):
            continue
        if re.search(r"'[^']*\n[^']*'", t) or t.count("'") % 2 or t.count('"') % 2:
            continue
        ch = chunks(t)
        if ch and ch[0][0] == "":
            continue
        if len(ch) < 4 or len(ch) > 120:
            continue
        kinds = []
        start = True
        prev = ""
        is_table = bool(re.match(r"^\s*CREATE\s+(OR\s+REPLACE\s+)?(\w+\s+)?TABLE\b", t, re.I))
        for c, sep in ch:
            u = c.upper()
            name_pos = prev in NAME_AFTER or ((prev in ("(", ",") or prev.endswith(("(", ","))) and u not in OPENERS)
            if c in ("(", ")", ","):
                k = {"(": "lp", ")": "rp", ",": "comma"}[c]
            elif c[0] in "'\"`[":
                k = "lit" if c[0] == "'" else "id"
            elif u in STMT_WORDS and not start:
                k = "stmtword"
            elif name_pos:
                k = "id"
            elif u in ("ASC", "DESC"):
                k = "kwdev_dir" if is_table else "kwdir"
            elif u in ("START", "INCREMENT") and is_table:
                k = "kwdev_autoinc"
            elif u == "CLUSTERED":
                k = "kwdev_clustered"
            elif u == "KEY" and prev not in ("PRIMARY", "FOREIGN", "UNIQUE"):
                k = "kwdev_key"
            elif u in CORPUS_KW and (c.isalpha() or "_" in c):
                k = "kw"
            else:
                k = "id"
            start = c.endswith(";")
            if start:
                k = "stmtend"
            kinds.append(k)
            prev = u
        out.append((i, ch, kinds))
    return out


def render_corpus(ch, gaps, cases):
    parts = []
    for (c, sep), g, cs in zip(ch, gaps, cases):
        w = c if cs in ("-", "upper") else case_of(c, cs)       # base case "upper" = as written in the corpus
        parts.append(w + (sep if g == "sp" else (GAP[g] if g != "none" else "")))
    return "".join(parts)


def corpus_layouts(V, corp, thorough, rnd, seed):
    sks = corpus_skeletons(corp)
    if not thorough:
        sks = rnd.sample(sks, min(len(sks), 60))
    n = 0
    ntlc = [0, 0]
    for b0 in range(0, len(sks), 20):
        batch = sks[b0:b0 + 20]
        cs = dict(Skeletons="<<" + ", ".join("<<" + ", ".join(f'"{k}"' for k in kinds) + ">>" for _, _, kinds in batch) + ">>",
                  Gaps='{"sp","sp3","tab","nl","crlf","none"}', Cases='{"upper","lower","mixed"}', CaseBase='"upper"', MaxOdd=1, LitClasses="{}", MaxLit=0,
                  Mode='"layout"', WithHist="TRUE")
        g = mc(cs, "corpus skeletons", kinds_of=[kinds for _, _, kinds in batch], base="upper")
        ntlc[0] += g.distinct
        ntlc[1] += g.generated
        behs = g.beh
        if not thorough and len(behs) > 2500:
            behs = rnd.sample(behs, 2500)
        tasks = []
        for j, (i, ch, kinds) in enumerate(batch):
            tasks.append((corp[i]["text"].replace("\r\n", "\n"), corp[i]["ctor"], {}))
        base_n = len(tasks)
        for b in behs:
            i, ch, kinds = batch[b["sk"] - 1]
            tasks.append((render_corpus(ch, b["gaps"], b["cases"]), corp[i]["ctor"], {}))
        outs, _ = C.parse_many(tasks)
        for b, tk, o in zip(behs, tasks[base_n:], outs[base_n:]):
            ref = outs[b["sk"] - 1]
            if ref[0] != "ok" or not ref[1]:
                continue
            n += 1
            if o != ref:
                odd_g = [(k, x) for k, x in enumerate(b["gaps"]) if x != "sp"]
                odd_c = [(k, x) for k, x in enumerate(b["cases"]) if x not in ("-", "upper")]
                i, ch, kinds = batch[b["sk"] - 1]
                where = odd_g[0][0] if odd_g else (odd_c[0][0] if odd_c else -1)
                V.mismatch({"what": "corpus statement re-laid-out", "ddl": tk[0][:1500], "changed": {"gap": odd_g, "case": odd_c},
                            "at_token": ch[where][0] if where >= 0 else None, "next_token": ch[where + 1][0] if 0 <= where < len(ch) - 1 else None,
                            "diff": C.diff_paths(ref[1], o[1])[:5] if o[0] == "ok" else o[1:3], "spec_dev": b["dev"]},
                           tags=b["dev"], paths=["raised"] if o[0] != "ok" else (["entities"] if len(o[1]) != len(ref[1]) else ["content"]))
    return n, len(sks), ntlc


def relayout_corpus(V, thorough, rnd):
    corp = CP.harvest()
    tasks, meta = [], []
    for i, r in enumerate(corp):
        t = r["text"]
        if ("'" in t and re.search(r"'[^']*\n[^']*'", t)) or "\u2018" in t or "\u2019" in t or t.count("'") % 2 \
                or re.search(r'"[^"]*\n[^"]*"', t) or t.count('"') % 2 or "input.regex" in t:
            continue   # a literal spanning lines (or typographic quotes, which hide literals from this filter): line ends inside it are content (C07)
        variants = {"crlf": t.replace("\r\n", "\n").replace("\n", "\r\n")}
        if "/*" not in t and "--" not in t and "#" not in t:
            variants["blank_lines"] = t.replace("\n", "\n\n")
            variants["tabs"] = re.sub(r"(?m)^ +", "\t", t)
        tasks.append((t, r["ctor"], {}))
        meta.append((i, "orig"))
        for k, v in variants.items():
            tasks.append((v, r["ctor"], {}))
            meta.append((i, k))
        # CRLF versus LF when an UNPAIRED apostrophe precedes the line ends (a comment with an apostrophe, a value with an escaped quote):
        # line-end handling that looks at quote parity must not take the rest of the script for the inside of a literal
        for j, head in enumerate(("-- the customer's data\n", "# don't drop\n", "CREATE TABLE q0 (z int COMMENT 'the user\\'s title');\n")):
            if (i + j) % 3 and not thorough:
                continue
            lf = head + t.replace("\r\n", "\n")
            tasks.append((lf, r["ctor"], {}))
            meta.append((f"{i}/{j}", "orig"))
            tasks.append((lf.replace("\n", "\r\n"), r["ctor"], {}))
            meta.append((f"{i}/{j}", "crlf_after_unpaired_quote"))
    outs, _ = C.parse_many(tasks)
    base = {}
    n = 0
    for (i, k), tk, o in zip(meta, tasks, outs):
        if k == "orig":
            base[i] = o
            continue
        if base[i][0] != "ok":
            continue
        n += 1
        if o != base[i]:
            V.mismatch({"what": "corpus re-layout", "variant": k, "ddl": tk[0][:1200], "paths": C.diff_paths(base[i][1], o[1])[:5] if o[0] == "ok" else ["raised"]},
                       paths=["corpus_" + k])
    return n


def run(tier, seed):
    t0 = time.time()
    rnd = random.Random(seed)
    V = C.Verdict(PID)
    thorough = tier == "thorough"
    cov = {"model_checked": [], "generation": []}
    states = trans = 0
    total = 0
    sample = None
    names = list(SKELETONS)
    refs = {}
    outs, _ = C.parse_many([(canonical(n), {}, {}) for n in names])
    for n, o in zip(names, outs):
        if o[0] != "ok" or not o[1]:
            raise C.MachineryError(f"canonical rendering of skeleton {n} does not parse: {o[:3]}")
        refs[n] = o
    plans = [("upper", 1, names), ("lower", 1, names), ("mixed", 0, names)]
    if thorough:
        plans += [("mixed", 1, names), ("upper", 2, names)]
    else:
        plans += [("upper", 2, ["sequence", "alter_drop", "alter_rename", "alter_fk_update", "table_generated", "table_mysql_glued"]), ("lower", 2, ["index"]), ("mixed", 1, ["table_mysql", "alter_rename", "table_generated", "table_fk"])]
    for base, modd, use in plans:
        cs = consts(use[0], CaseBase=f'"{base}"', MaxOdd=modd, WithHist="TRUE")
        cs["Skeletons"] = "<<" + ", ".join(tla_skeleton(n) for n in use) + ">>"
        g = mc(cs, f"{len(use)} skeletons base={base} odd<={modd}", kinds_of=[[k for k, _ in SKELETONS[n][1]] for n in use], base=base)
        print(f"  t={time.time()-t0:.0f}s TLC {base}/{modd}: {len(g.beh)} layouts in {g.wall:.1f}s", flush=True)
        states += g.distinct
        trans += g.generated
        behs = g.beh
        if not thorough and len(behs) > 9000:
            behs = rnd.sample(behs, 9000)
        tasks = [(render(use[b["sk"] - 1], b["gaps"], b["cases"]), {}, {}) for b in behs]
        outs, _ = C.parse_many(tasks)
        nb = 0
        for b, tk, o in zip(behs, tasks, outs):
            total += 1
            name = use[b["sk"] - 1]
            ref = refs[name]
            if o != ref:
                nb += 1
                paths = ["raised"] if o[0] != "ok" else (["entities"] if len(o[1]) != len(ref[1]) else ["content"])
                V.mismatch({"skeleton": name, "ddl": tk[0], "gaps": [x for x in b["gaps"] if x != "sp"], "cases": sorted(set(b["cases"]) - {"-"}), "paths": paths,
                            "diff": C.diff_paths(ref[1], o[1])[:5] if o[0] == "ok" else o[1:3], "spec_dev": b["dev"]}, tags=b["dev"], paths=paths)
        cov["generation"].append({"skeletons": len(use), "base_case": base, "max_odd": modd, "layouts": len(g.beh), "replayed": len(behs), "mismatches": nb})
        if sample is None and behs:
            b = behs[len(behs) // 2]
            sample = {"skeleton": use[b["sk"] - 1], "gaps": b["gaps"], "cases": b["cases"], "ddl": render(use[b["sk"] - 1], b["gaps"], b["cases"])}
    print(f"  t={time.time()-t0:.0f}s hand skeletons done", flush=True)
    ncorp = relayout_corpus(V, thorough, rnd)
    print(f"  t={time.time()-t0:.0f}s corpus relayout done", flush=True)
    cov["corpus_relayouts"] = ncorp
    nlay, nsk, ntlc = corpus_layouts(V, CP.harvest(), thorough, rnd, seed)
    states += ntlc[0]
    trans += ntlc[1]
    total += nlay
    cov["corpus_statement_layouts"] = {"corpus_scripts_used_as_skeletons": nsk, "layouts_replayed": nlay}
    # ---- "identifiers, type names and values keep exactly the letter case they were written in": absolute, per word -----------------
    KW = ["CREATE", "TABLE", "NOT", "NULL", "DEFAULT", "CHARACTER", "SET", "REFERENCES", "DISTKEY", "COLLATE", "WITH", "TIME", "ZONE", "CONSTRAINT", "PRIMARY",
          "KEY", "INDEX", "ON", "DESC", "ALTER", "ADD", "FOREIGN", "SEQUENCE", "START", "UNIQUE", "ENCODE", "COMMENT"]
    CASE_SCRIPTS = [
        "CREATE TABLE S1.MyTab (Id BigInt NOT NULL DEFAULT 'AbC', Name VarChar(10) CHARACTER SET Utf8mb4 NOT NULL, Amount Decimal(10,2) REFERENCES Other (RefId), "
        "SaleId SmallInt DISTKEY, Note Text COLLATE Latin1_bin, Ts TimeStamp WITH TIME ZONE, Zz Real ENCODE Zstd, CONSTRAINT Pk_My PRIMARY KEY (Id));\n"
        "CREATE INDEX Ix_Name ON S1.MyTab (Name DESC);\nALTER TABLE S1.MyTab ADD CONSTRAINT Fk_A FOREIGN KEY (SaleId) REFERENCES Other2 (OtherId);\n"
        "CREATE SEQUENCE S1.MySeq START 5;\n",
        "CREATE TABLE MyTab2 (Code NVarChar(20) CHARACTER SET Latin1 COLLATE Latin1_General_ci DEFAULT 'MiXed' NOT NULL, Qty DoublePrec UNIQUE, Flag TinyInt DISTKEY NOT NULL);\n",
    ]
    ctasks, cmeta = [], []
    for sc in CASE_SCRIPTS:
        for style in ("upper", "lower", "cap"):
            def recase(m, style=style):
                w = m.group(0)
                if w.upper() not in KW or w != w.upper():
                    return w
                return w if style == "upper" else (w.lower() if style == "lower" else w.capitalize())
            text = "".join(part if part.startswith("'") else re.sub(r"[A-Za-z_][A-Za-z_0-9]*", recase, part) for part in re.split(r"('[^']*')", sc))
            words = sorted({w for part in re.split(r"('[^']*')", sc) for w in re.findall(r"[A-Za-z_][A-Za-z_0-9]*", part.strip("'"))
                            if any(c.isupper() for c in w) and any(c.islower() for c in w)})
            ctasks.append((text, {}, {}))
            cmeta.append((style, words))
    couts, _ = C.parse_many(ctasks)
    for (style, words), tk, o in zip(cmeta, ctasks, couts):
        if o[0] != "ok":
            V.mismatch({"what": "letter case of names / types / values", "ddl": tk[0], "problem": "raised", "error": o[1:3]}, paths=["raised"])
            continue
        dump = json.dumps(o[1])
        lost = [w for w in words if not re.search(r"(?<![A-Za-z0-9_])" + re.escape(w) + r"(?![A-Za-z0-9_])", dump)]
        if lost:
            V.mismatch({"what": "letter case of names / types / values", "ddl": tk[0], "keyword_style": style,
                        "problem": "words not reported in the letter case they were written in", "words": lost}, paths=["case"])
    total += len(ctasks)
    rc = V.finish()
    cov.update({"states": states, "transitions": trans, "traces_validated_against_impl": total + ncorp, "samples": [sample], "exhaustive": thorough,
                "known_findings_met": V.hits})
    C.write_evidence(PID, tier, seed, cov, time.time() - t0, len(V.viol),
                     ["value words (referential actions, storage formats, engine names) are not case-varied: they are reported as written",
                      "the canonical rendering is the reference (tied to the specification by C01/C02/C04/C11/C17)", "TLC, PLY, CPython trusted"])
    return rc


def replay(path):
    return C.generic_replay(path)
