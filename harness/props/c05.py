"""C05 Parsing is invariant under keyword case, whitespace and line layout.

Decided by spec/Scanner.tla (layout mode): GapIrrelevant and CaseBlind - the scanned token sequence is the statement's skeleton
whatever gap class follows each token and whatever case each keyword is written in - with the property's own provisos as guards
of the environment (no gap only next to punctuation, no line break directly before a statement-level word that does not start
the statement, terminator at the end of its line), and spec/Lexer.tla for case-blind keyword lookup.  TLC enumerates every layout
with <= 1 (2) non-canonical choices over gap classes {3 spaces, tab, LF, CRLF, empty line, none} x boundary and case {lower,
mixed} x keyword, from an all-upper and from an all-lower / all-mixed base, for a catalogue of statement skeletons of the four
families (CREATE TABLE incl. dialect clauses, ALTER TABLE kinds, CREATE INDEX, CREATE SEQUENCE).  Every layout is rendered and
parsed by the real library: the result must equal the canonical rendering's.  Regression-corpus scripts are re-laid-out whole
(LF -> CRLF, blank lines, tabs for indentation).  Layouts TLC tags as deviations are KNOWN-FINDINGs when listed.
"""
import json
import random
import re
import time

from .. import common as C
from .. import corpus as CP

PID = "C05"
GAP = {"sp": " ", "sp3": "   ", "tab": "\t", "nl": "\n", "crlf": "\r\n", "blank": "\n\n", "none": ""}
PRE = "CREATE TABLE s1.t1 (a int, b int, c int);\n"


def sk(text):
    """skeleton from a compact notation: words separated by spaces; prefixes  k: keyword  d: ASC/DESC  c: CHARSET  s: statement-level word
    inside a statement  l: literal  (punctuation and everything else are recognised by themselves)"""
    out = []
    for w in text.split(" "):
        if w in ("(", ")", ",", ";", ".", "="):
            out.append(({"(": "lp", ")": "rp", ",": "comma", ";": "semi", ".": "dot", "=": "eq"}[w], w))
        elif w[:2] in ("k:", "d:", "c:", "s:", "l:"):
            out.append(({"k": "kw", "d": "kwdir", "c": "kwcs", "s": "stmtword", "l": "lit"}[w[0]], w[2:].replace("~", " ")))
        elif re.fullmatch(r"-?\d+", w):
            out.append(("num", w))
        else:
            out.append(("id", w))
    return out


SKELETONS = {
    "table": ("", sk("k:CREATE k:TABLE s1 . t1 ( a int k:NOT k:NULL k:DEFAULT l:'x~y' , b varchar ( 10 ) k:PRIMARY k:KEY , c decimal ( 10 , 2 ) "
                     "k:REFERENCES o ( id ) k:ON s:DELETE CASCADE , k:CONSTRAINT k1 k:UNIQUE ( a , c ) ) ;")),
    "table_fk": ("", sk("k:CREATE k:TABLE t1 ( a int k:REFERENCES o ( id ) k:ON k:UPDATE CASCADE k:ON s:DELETE RESTRICT , b int k:DEFAULT 5 k:NOT k:NULL , "
                        "k:FOREIGN k:KEY ( b ) k:REFERENCES p ( y ) k:ON k:UPDATE CASCADE ) ;")),
    "table_items": ("", sk("k:CREATE k:TABLE t1 ( a int k:UNIQUE , b int k:NULL k:CHECK ( b > 1 ) , k:PRIMARY k:KEY ( a ) , k:FOREIGN k:KEY ( b ) k:REFERENCES o ( x ) ) ;")),
    "table_mysql": ("", sk("k:CREATE k:TABLE t1 ( a int k:COMMENT l:'c~1' ) k:ENGINE = InnoDB k:DEFAULT c:CHARSET = utf8 ;")),
    "table_hql": ("", sk("k:CREATE k:EXTERNAL k:TABLE k:IF k:NOT k:EXISTS t1 ( a int , b string ) k:PARTITIONED k:BY ( p date ) k:STORED k:AS PARQUET k:LOCATION l:'s3://x/y' ;")),
    "alter_fk": (PRE, sk("k:ALTER k:TABLE s1 . t1 k:ADD k:CONSTRAINT fk1 k:FOREIGN k:KEY ( a ) k:REFERENCES o ( id ) ;")),
    "alter_fk_update": (PRE, sk("k:ALTER k:TABLE s1 . t1 k:ADD k:FOREIGN k:KEY ( a ) k:REFERENCES o ( id ) k:ON k:UPDATE CASCADE ;")),
    "alter_drop": (PRE, sk("k:ALTER k:TABLE s1 . t1 s:DROP k:COLUMN a ;")),
    "alter_rename": (PRE, sk("k:ALTER k:TABLE s1 . t1 k:RENAME k:COLUMN a k:TO z ;")),
    "alter_modify": (PRE, sk("k:ALTER k:TABLE s1 . t1 k:MODIFY k:COLUMN a bigint ;")),
    "alter_unique": (PRE, sk("k:ALTER k:TABLE s1 . t1 k:ADD k:UNIQUE ( a , b ) ;")),
    "alter_default": (PRE, sk("k:ALTER k:TABLE s1 . t1 k:ADD k:CONSTRAINT d1 k:DEFAULT 0 k:FOR a ;")),
    "alter_check": (PRE, sk("k:ALTER k:TABLE s1 . t1 k:ADD k:CHECK ( a > 0 ) ;")),
    "alter_pk": (PRE, sk("k:ALTER k:TABLE s1 . t1 k:ADD k:PRIMARY k:KEY ( a ) ;")),
    "index": (PRE, sk("k:CREATE k:UNIQUE k:INDEX i1 k:ON s1 . t1 ( a d:DESC , b d:ASC ) ;")),
    "sequence": ("", sk("k:CREATE k:SEQUENCE s1 . sq k:INCREMENT k:BY 2 k:START k:WITH 5 k:MINVALUE 1 k:NO k:MAXVALUE k:CACHE 10 ;")),
}


def case_of(w, c):
    if c in ("-", "upper"):
        return w if c == "-" else w.upper()
    if c == "lower":
        return w.lower()
    return "".join(ch.upper() if i % 2 == 0 else ch.lower() for i, ch in enumerate(w))


def render(name, gaps, cases):
    pre, toks = SKELETONS[name]
    out = []
    for (kind, w), g, c in zip(toks, gaps, cases):
        out.append(case_of(w, c) + GAP[g])
    return pre + "".join(out).rstrip(" ") + "\n"


def canonical(name, base="upper"):
    _, toks = SKELETONS[name]
    return render(name, ["sp"] * len(toks), [base if k in ("kw", "kwdir", "kwcs", "stmtword") else "-" for k, _ in toks])


def tla_skeleton(name):
    return "<<" + ", ".join(f'"{k}"' for k, _ in SKELETONS[name][1]) + ">>"


def consts(name, **kw):
    d = dict(Skeleton=tla_skeleton(name), Gaps='{"sp","sp3","tab","nl","crlf","blank","none"}', Cases='{"upper","lower","mixed"}', CaseBase='"upper"',
             MaxOdd=1, LitClasses="{}", MaxLit=0, Mode='"layout"', WithHist="FALSE")
    d.update(kw)
    return d


def mc(cs, what):
    hist = cs["WithHist"] == "TRUE"
    r = C.run_tlc_wrapped("Scanner", cs, dict(spec="Spec", invariants=["GapIrrelevant", "CaseBlind"] + (["Emit"] if hist else [])),
                          workers=1 if hist else 4, timeout=900)
    C.require_tlc_ok(r, what)
    return r


def ci(x):
    """results compared with value words case-folded only where the skeleton varies their case: nothing (value words are not varied)"""
    return x


def relayout_corpus(V, thorough, rnd):
    corp = CP.harvest()
    tasks, meta = [], []
    for i, r in enumerate(corp):
        t = r["text"]
        if "'" in t and re.search(r"'[^']*\n[^']*'", t):
            continue   # a literal spanning lines: line ends inside it are content (C07), not layout
        variants = {"crlf": t.replace("\r\n", "\n").replace("\n", "\r\n")}
        if "/*" not in t and "--" not in t and "#" not in t:
            variants["blank_lines"] = t.replace("\n", "\n\n")
            variants["tabs"] = re.sub(r"(?m)^ +", "\t", t)
        tasks.append((t, r["ctor"], {}))
        meta.append((i, "orig"))
        for k, v in variants.items():
            if k != "crlf" and not thorough and rnd.random() < 0.5:
                continue
            tasks.append((v, r["ctor"], {}))
            meta.append((i, k))
    outs, _ = C.parse_many(tasks)
    base = {}
    n = 0
    for (i, k), tk, o in zip(meta, tasks, outs):
        if k == "orig":
            base[i] = o
            continue
        if base[i][0] != "ok":
            continue
        n += 1
        if o != base[i]:
            V.mismatch({"what": "corpus re-layout", "variant": k, "ddl": corp[i]["text"][:1200], "paths": C.diff_paths(base[i][1], o[1])[:5] if o[0] == "ok" else ["raised"]},
                       paths=["corpus_" + k])
    return n


def run(tier, seed):
    t0 = time.time()
    rnd = random.Random(seed)
    V = C.Verdict(PID)
    thorough = tier == "thorough"
    cov = {"model_checked": [], "generation": []}
    states = trans = 0
    total = 0
    sample = None
    plans = []
    for name in SKELETONS:
        plans.append((name, "upper", 1))
        plans.append((name, "lower", 1))
        plans.append((name, "mixed", 0))
        if thorough:
            plans.append((name, "mixed", 1))
            plans.append((name, "upper", 2))
    if not thorough:
        plans += [("sequence", "upper", 2), ("alter_drop", "upper", 2), ("index", "lower", 2), ("table_mysql", "mixed", 1), ("alter_rename", "mixed", 1)]
    for name, base, modd in plans:
        cs = consts(name, CaseBase=f'"{base}"', MaxOdd=modd, WithHist="TRUE")
        g = mc(cs, f"{name} base={base} odd<={modd}")
        states += g.distinct
        trans += g.generated
        behs = g.beh
        if not thorough and len(behs) > 1500:
            behs = rnd.sample(behs, 1500)
        canon = canonical(name)
        tasks = [(canon, {}, {})] + [(render(name, b["gaps"], b["cases"]), {}, {}) for b in behs]
        outs, _ = C.parse_many(tasks)
        ref = outs[0]
        if ref[0] != "ok" or not ref[1]:
            raise C.MachineryError(f"canonical rendering of skeleton {name} does not parse: {ref[:3]}")
        nb = 0
        for b, tk, o in zip(behs, tasks[1:], outs[1:]):
            total += 1
            if o != ref:
                nb += 1
                paths = ["raised"] if o[0] != "ok" else (["entities"] if len(o[1]) != len(ref[1]) else ["content"])
                V.mismatch({"skeleton": name, "ddl": tk[0], "gaps": [x for x in b["gaps"] if x != "sp"], "cases": sorted(set(b["cases"]) - {"-"}), "paths": paths,
                            "diff": C.diff_paths(ref[1], o[1])[:5] if o[0] == "ok" else o[1:3], "spec_dev": b["dev"]}, tags=b["dev"], paths=paths)
        cov["generation"].append({"skeleton": name, "base_case": base, "max_odd": modd, "layouts": len(g.beh), "replayed": len(behs), "mismatches": nb})
        if sample is None and behs:
            b = behs[len(behs) // 2]
            sample = {"skeleton": name, "gaps": b["gaps"], "cases": b["cases"], "ddl": render(name, b["gaps"], b["cases"])}
    ncorp = relayout_corpus(V, thorough, rnd)
    cov["corpus_relayouts"] = ncorp
    rc = V.finish()
    cov.update({"states": states, "transitions": trans, "traces_validated_against_impl": total + ncorp, "samples": [sample], "exhaustive": thorough,
                "known_findings_met": V.hits})
    C.write_evidence(PID, tier, seed, cov, time.time() - t0, len(V.viol),
                     ["value words (referential actions, storage formats, engine names) are not case-varied: they are reported as written",
                      "the canonical rendering is the reference (tied to the specification by C01/C02/C04/C11/C17)", "TLC, PLY, CPython trusted"])
    return rc


def replay(path):
    d = json.load(open(path))
    print(json.dumps(d["violations"][:3], indent=1)[:3000])
    return 1
