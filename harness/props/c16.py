"""C16 Unsupported input is skipped silently or raises DDLParserError, as selected.

Decided by spec/Assembler.tla: `submitted` is exactly what reaches the grammar, so a script raises under silent=False iff
one of its submitted statements is of a kind the grammar rejects (view, query, the tail of a multi-line INSERT), and with
silent=True nothing is raised and the result is the expected entity sequence (SubmittedExact / SkipIsNoOp).  Every
complete behaviour of the generation configuration (supported statements with statements from the unsupported families at
every position) is parsed by the real library under silent=True and silent=False x output modes: silent=True never raises
and yields the entities TLC lists; silent=False raises DDLParserError (a SimpleDDLParserException) exactly when TLC says
a rejected statement reaches the grammar, and otherwise returns the identical result.  Supported-only behaviours of the
TableFold / Registry / Entities / Clauses generators must not raise under silent=False; unknown output modes must raise
SimpleDDLParserException naming the valid modes.
"""
import json
import random
import time

from .. import common as C
from .. import assembler as A
from .. import asm_check as F
from .. import tablefold as T
from .. import registry as R
from .. import entities as E
from .. import clauses as K
from .. import tf_check as TF
from .. import ent_check as EF
from . import c03, c04, c11

PID = "C16"
REJECTED = {"view", "unsup", "ext"}          # kinds the grammar rejects; plus the tail of a multi-line skip-word statement


def rejected_reaches_grammar(b):
    for st in b["submitted"]:
        sid = st[0][1]
        k = b["stmts"][sid - 1]["k"]
        if k in REJECTED or (k in ("insert", "grant") and st[0][2] > 1):
            return True
    return False


def run(tier, seed):
    t0 = time.time()
    F.guard_on()
    rnd = random.Random(seed)
    V = C.Verdict(PID)
    thorough = tier == "thorough"
    cov = {"model_checked": [], "generation": []}
    sk = [x for x in c03.SK if x[0] not in ("drop", "upsert")]     # DROP TABLE has its own production (C03 records what it yields)
    cs = F.consts(sk, MaxStmts=3)
    r = F.mc(cs, "<=3 statements of 18 shapes")
    states, trans = r.distinct, r.generated
    cov["model_checked"].append({"config": "<=3 statements of 18 shapes", "distinct_states": r.distinct})
    g = F.mc(dict(cs, WithHist="TRUE"), "generation")
    behs = [b for b in g.beh if b["stmts"]]
    if not thorough:
        behs = rnd.sample(behs, min(len(behs), 4000))
    modes = ["sql"] + (["hql", "bigquery", "mssql"] if thorough else [rnd.choice(["hql", "bigquery", "mssql", "oracle"])])
    total = 0
    for m in modes:
        sub = behs if m == "sql" else rnd.sample(behs, min(len(behs), 1000))
        rs = C.pool().map(F._replay, [(b, 0, {"silent": True}, {"output_mode": m}, True) for b in sub], 32)
        rf = C.pool().map(F._replay, [(b, 0, {"silent": False}, {"output_mode": m}, True) for b in sub], 32)
        for b, (text, os_, _), (_, of, _) in zip(sub, rs, rf):
            total += 1
            tags = F.spec_tags(b)
            case = {"ddl": text, "mode": m, "statements": b["stmts"], "spec_dev": sorted(tags)}
            want_raise = rejected_reaches_grammar(b)
            if os_[0] != "ok":
                V.mismatch(dict(case, problem="silent=True raised", error=os_[1:3]), tags=tags, paths=["silent_raised"])
                continue
            ents, _ = A.project_entities(os_[1])
            if [e for e in ents if e["kind"] != "set"] != A.expected_entities(b, b["stmts"]):
                V.mismatch(dict(case, problem="silent=True result is not the supported statements' entities", observed=ents), tags=tags, paths=["entities"])
            if want_raise:
                if of[0] == "ok":
                    V.mismatch(dict(case, problem="silent=False did not raise although an unparseable statement reaches the grammar"), tags=tags,
                               paths=["not_raised"])
                elif "SimpleDDLParserException" not in of[3] or of[1] != "DDLParserError":
                    V.mismatch(dict(case, problem="silent=False raised something else than DDLParserError", error=of[1:4]), tags=tags, paths=["wrong_exception"])
            else:
                if of[0] != "ok":
                    V.mismatch(dict(case, problem="silent=False raised on a script whose statements are all supported or skipped", error=of[1:3]), tags=tags,
                               paths=["raised"])
                elif of[1] != os_[1]:
                    V.mismatch(dict(case, problem="silent=False result differs from silent=True result"), tags=tags, paths=["differs"])
    cov["generation"].append({"config": "assembler scripts", "behaviours": len(g.beh), "replayed_pairs": total, "modes": modes})

    # supported-only DDL never raises under silent=False
    sup = []
    gt = TF.mc(TF.consts(WithHist="TRUE", TypeForms='{"vc","dec"}', MaxOpts=2, ItemKinds=TF.ALLITEMS, ItemCols=TF.IC4, MaxItems=1, Refs='{"r2"}'), "tablefold")
    for b in (gt.beh if thorough else rnd.sample(gt.beh, min(len(gt.beh), 600))):
        if not TF.spec_tags(b):
            sup.append(("tablefold", T.render(b["hist"], seed, nm=T.name_map(seed + len(b["hist"]))) + "\n"))
    gr = c04.mc(c04.consts(WithHist="TRUE", Universe=c04.U1, MaxCreates=1, MaxStmts=3, Spells=c04.SS), "registry")
    rb = [b for b in gr.beh if not b["err"] and b["hist"]]
    for b in (rb if thorough else c04.stratified(rb, rnd, 500)):
        sup.append(("registry", R.render(b["hist"], seed)[0]))
    ge = EF.mc(EF.consts(WithHist="TRUE", MaxOpts=2, MaxStmts=2, Kinds=E.tla_kinds([k for k in E.CATALOG if k not in E.FINDING_TAG]), groups=["start", "cache", "order"]), "entities")
    eb = [b for b in ge.beh if b["hist"]]
    for b in (eb if thorough else rnd.sample(eb, min(len(eb), 400))):
        sup.append(("entities", E.render(b["hist"], seed)[0]))
    gc = c11.mc(K.tla_consts(sorted(K.CAT), ["plain", "last_default"], MaxClauses=2, WithHist="TRUE"), "clauses")
    cb = [b for b in gc.beh if b["clauses"]]
    for b in (cb if thorough else rnd.sample(cb, min(len(cb), 400))):
        sup.append(("clauses", K.render(b) + "\n"))
    # every word the grammar accepts between CREATE and TABLE (the production takes any identifier there), in either letter case
    for w in ["UNLOGGED", "MULTISET", "HYBRID", "COLUMN", "MANAGED", "VOLATILE", "LOCAL TEMPORARY", "GLOBAL TEMPORARY", "TEMP", "TEMPORARY", "TRANSIENT", "EXTERNAL",
              "ICEBERG", "OR REPLACE", "OR REPLACE TRANSIENT", "OR REPLACE TEMPORARY", "DIMENSION", "FACT", "SET"]:
        w2 = w if rnd.random() < 0.5 else w.lower()
        sup.append(("table kind", f"CREATE {w2} TABLE t1 (a int, b varchar(5));\nCREATE TABLE t2 (c int);\n"))
        if w not in ("LOCAL TEMPORARY", "GLOBAL TEMPORARY"):     # (two kind words + IF NOT EXISTS is not a form the grammar has: OBSERVATIONS.md)
            sup.append(("table kind", f"CREATE TABLE t0 (c int);\nCREATE {w2} TABLE IF NOT EXISTS s1.t1 (a int, b varchar(5)) ;\n"))
    for tail_ in ("ON COMMIT DROP", "ON COMMIT PRESERVE ROWS", "on commit drop"):
        for w in ("TEMP", "TEMPORARY", "GLOBAL TEMPORARY"):
            sup.append(("table kind", f"CREATE {w} TABLE t1 (a int, b varchar(5)) {tail_};\nCREATE TABLE t2 (c int);\n"))
    # empty statements: a line holding only `;` (first, between statements, last) is supported input too (nothing to parse, nothing to reject)
    for k_, (lab_, t_) in enumerate(list(sup)):
        if k_ % 6 == 0 and "\n" in t_.strip() and "'" not in t_ and '"' not in t_:
            v_ = (";\n" + t_, t_.replace(";\n", ";\n;\n", 1), t_.rstrip("\n") + "\n;\n")[(k_ // 6) % 3]
            sup.append((lab_ + " + empty statement", v_))
    states += gt.distinct + gr.distinct + ge.distinct + gc.distinct
    trans += gt.generated + gr.generated + ge.generated + gc.generated
    tasks = [(t, {"silent": False}, {}) for _, t in sup] + [(t, {}, {}) for _, t in sup]
    outs, _ = C.parse_many(tasks)
    n = len(sup)
    for i, (lab, t) in enumerate(sup):
        of, os_ = outs[i], outs[n + i]
        if os_[0] != "ok":
            # (the generators' scripts are supported DDL: registry behaviours that end in the ValueError of an unknown ALTER target are not among them)
            V.mismatch({"ddl": t, "source": lab, "problem": "supported DDL raises under silent=True", "error": os_[1:3]}, paths=["silent_raised"])
            continue
        if lab == "table kind" and [len(e.get("columns", [])) for e in os_[1] if "table_name" in e] not in ([2, 1], [1, 2]):
            V.mismatch({"ddl": t, "source": lab, "problem": "a CREATE <kind> TABLE statement is not reported as a table"}, paths=["table_kind"])
        if of[0] != "ok":
            V.mismatch({"ddl": t, "source": lab, "problem": "supported DDL raises under silent=False", "error": of[1:3]}, paths=["supported_raised"])
        elif of[1] != os_[1]:
            V.mismatch({"ddl": t, "source": lab, "problem": "silent=False result differs from silent=True result"}, paths=["differs"])
    cov["generation"].append({"config": "supported-only DDL of the other generators under silent=False", "scripts": n})
    # unknown output modes
    lib = C._import_lib()
    for bad in ("nope", "SQL", "postgresql", "", "hql "):
        # whatever the script holds and whatever `silent` says: the exception is the one that names the valid modes
        for ddl in ("create table a (b int);", "create table a (b int);\nSELECT 1;\n", "CREATE VIEW v AS SELECT 1;\ncreate table a (b int, PRIMARY);\n", ""):
            for ctor in ({}, {"silent": False}):
                try:
                    lib.DDLParser(ddl, **ctor).run(output_mode=bad)
                    V.mismatch({"problem": "unknown output_mode accepted", "mode": bad, "ddl": ddl, "ctor": ctor}, paths=["bad_mode"])
                except BaseException as e:  # noqa
                    names = [c.__name__ for c in type(e).__mro__]
                    if "SimpleDDLParserException" not in names or not all(m in str(e) for m in ("hql", "mysql", "bigquery", "sql")):
                        V.mismatch({"problem": "unknown output_mode: wrong exception or message", "mode": bad, "ddl": ddl, "ctor": ctor, "error": [names[:3], str(e)[:200]]},
                                   paths=["bad_mode"])
    # ---- the end-to-end composition (spec/System.tla): which exception wins, and that silent only removes the raising
    from .. import sys_check as SY
    sc, ss, st, sn = SY.leg(V, tier, seed, "C16: <=3 statements of 11 kinds, silent and raising",
                            ["table", "sequence", "schema", "go", "insert", "select", "view", "alter", "index", "set", "comment"], MaxStmts=3,
                            Silents=SY.bset([True, False]), cap=5000 if not thorough else 40000,
                            negative=("fold_while_parsing", "OutcomeOK", {"MaxStmts": 2}),
                            sim={"consts": {"MaxStmts": 5}, "simulate": "num=3000", "depth": 40} if thorough else None)
    cov["system_composition"] = sc
    states += ss
    trans += st
    # ---- code -> spec: the events of whole run() calls on the corpus (silent and raising, run twice) validated by TLC against the stage machine
    from .. import trace_sys as TS
    from .. import corpus as CP
    import copy
    corp = CP.harvest()
    ttasks = []
    for r_ in corp:
        ttasks.append((r_["text"], dict(r_["ctor"]), {}, 2))
        ttasks.append((r_["text"], dict(r_["ctor"], silent=False), {"group_by_type": True}, 1))
    for b in behs[:300]:
        ttasks.append((A.render(b, b["stmts"], seed), {"silent": False}, {}, 1))
    ttr = TS.record(ttasks)
    tacc, trej, trr = TS.validate(ttr)
    for i_, line, model in trej:
        V.mismatch({"problem": "recorded run() rejected by spec/TraceSystem.tla (stage order / fold counts / raising)", "ddl": ttasks[i_][0][:1200], "ctor": ttasks[i_][1],
                    "event": ttr[i_]["ev"][line - 1] if line else None, "events_before": ttr[i_]["ev"][max(0, (line or 1) - 4):(line or 1) - 1], "model": model}, paths=["trace"])
    with_events = [t for t in ttr if t and len(t["ev"]) >= 4 and any(e["e"] == "Apply" for e in t["ev"])]
    if with_events:          # (no events at all = the guarded hooks are not in this tree: skipped, not a verdict)
        bad1 = copy.deepcopy(with_events[0])
        ia = next(k for k, e in enumerate(bad1["ev"]) if e["e"] == "Apply")
        bad1["ev"].insert(ia + 1, {"e": "Parse", "acc": True})          # a statement parsed after folding started
        bad2 = copy.deepcopy(with_events[0])
        bad2["ev"][ia]["n"] += 1                                           # an item that adds two entities
        _, rejb, _ = TS.validate([bad1, bad2])
        if len(rejb) != 2:
            raise C.MachineryError("TraceSystem accepted a corrupted trace: the binding is vacuous")
    cov["run_traces"] = {"runs_recorded": len(ttr), "events": sum(len(t["ev"]) for t in ttr if t), "accepted": tacc, "rejected": len(trej),
                         "corrupted_traces_rejected": bool(with_events)}
    states += trr.distinct if trr else 0
    trans += trr.generated if trr else 0
    rc = V.finish()
    b = behs[0]
    cov.update({"states": states, "transitions": trans, "traces_validated_against_impl": total + n,
                "samples": [{"statements": b["stmts"], "ddl": A.render(b, b["stmts"], 0), "raises_when_not_silent": rejected_reaches_grammar(b)}],
                "exhaustive": thorough, "known_findings_met": V.hits})
    C.write_evidence(PID, tier, seed, cov, time.time() - t0, len(V.viol),
                     ["the raising clause is judged for statements that REACH the grammar: lines removed by the skip-word filter (GO, USE, INSERT, GRANT, "
                      "DELETE first lines) are skipped in both settings by design", "TLC, PLY, CPython trusted"])
    return rc


def replay(path):
    return C.generic_replay(path)
