"""C13 group_by_type is a lossless, order-preserving regrouping of the flat result.

Decided by spec/Registry.tla: GroupLossless (every entity exactly once, in its kind's bucket, relative order kept,
always-present buckets) and BucketRuleAgrees (the mechanism `first marker key wins` agrees with the kind) are
model-checked over every sequence of <= 4 (thorough 5) entities drawn from the 8 kinds, with ALTER / CREATE INDEX
results interleaved (they create no entity).  Every state of the generation configuration is rendered (entity forms and
comments chosen by seed), parsed flat and grouped by the real library in several output modes, and the grouped result
must be exactly the regrouping TLC computed (bucket -> indices into the flat list), entity dicts unchanged.
"""
import json
import random
import time

from .. import common as C
from .. import registry as R
from . import c04

PID = "C13"
MODES = ['redshift', 'spark_sql', 'mysql', 'bigquery', 'mssql', 'databricks', 'sqlite', 'vertics', 'ibm_db2', 'postgres',
         'oracle', 'hql', 'snowflake', 'athena', 'sql']
OTHERS = '{"sequence","type","domain","schema","database","tablespace","ddl_property"}'
FORMS = {
    "sequence": ["CREATE SEQUENCE sq1 START 1;", "CREATE SEQUENCE s1.sq2 INCREMENT BY 2 MINVALUE 1 NO MAXVALUE CACHE 10;",
                 "create sequence sq3 start with 5;"],
    "type": ["CREATE TYPE ty1 AS ENUM ('x', 'y');", "CREATE TYPE s1.ty2 AS OBJECT (f1 int, f2 varchar(5));", "CREATE TYPE ty3 AS TABLE (a int);"],
    "domain": ["CREATE DOMAIN dm1 AS varchar(5);", "CREATE DOMAIN s1.dm2 AS numeric(5);"],
    "schema": ["CREATE SCHEMA sc1;", "CREATE SCHEMA IF NOT EXISTS sc2;", "CREATE SCHEMA sc3 AUTHORIZATION u1;"],
    "database": ["CREATE DATABASE db1;", "create database db2;"],
    "tablespace": ["CREATE TABLESPACE ts1;", "CREATE BIGFILE TEMPORARY TABLESPACE ts2;"],
    "ddl_property": ["SET qq = 1;", "SET search_path = public;"],
}
MARKERS = {"table": {"table_name"}, "sequence": {"sequence_name"}, "type": {"type_name"}, "domain": {"domain_name"},
           "schema": {"schema_name"}, "tablespace": {"tablespace_name"}, "database": {"database_name"}, "ddl_property": {"value"}}
ALLKEYS = ["table_name", "sequence_name", "type_name", "domain_name", "schema_name", "tablespace_name", "database_name", "value"]


def render(hist, seed):
    rnd = random.Random(f"c13-{seed}")
    sp = R.mk_spellers(seed)
    lines, ncom = [], 0
    n = len(hist)
    for i, s in enumerate(hist):
        if s["k"] == "other":
            text = rnd.choice(FORMS[s["x"]])
        else:
            text = R.render_stmt(sp, s, i)
        # a SET statement is only emitted when another line follows it (known behaviour, see C03); keep it off the last line
        if rnd.random() < 0.4 and not text.upper().startswith("SET"):
            ncom += 1
            text += f" -- note {ncom}, kept (apart)"
        lines.append(text)
    if hist and hist[-1]["k"] == "other" and hist[-1]["x"] == "ddl_property":
        lines.append("")  # SET must be followed by a line to be flushed
    if rnd.random() < 0.3:
        ncom += 1
        lines.insert(0, "/* head block %d */" % ncom)
    return "\n".join(lines) + "\n", ncom


def _dump_pair(task):
    """flat and grouped result of the same script when a dump is requested as well (scratch directory, removed afterwards)"""
    import os
    import shutil
    import tempfile
    text, mode, via_file = task
    lib = C._import_lib()
    root = tempfile.mkdtemp(prefix="verif_c13_")
    out = []
    try:
        src = os.path.join(root, "in.sql")
        with open(src, "w") as f:
            f.write(text)
        for grouped in (False, True):
            try:
                if via_file:
                    r = lib.parse_from_file(src, dump=True, dump_path=os.path.join(root, "o%d" % grouped), group_by_type=grouped, output_mode=mode)
                else:
                    r = lib.DDLParser(text).run(dump=True, dump_path=os.path.join(root, "o%d" % grouped), file_path=src, group_by_type=grouped, output_mode=mode)
                out.append(("ok", C.jnorm(r)))
            except BaseException as e:  # noqa
                out.append(("exc", type(e).__name__, str(e)[:120]))
    finally:
        shutil.rmtree(root, ignore_errors=True)
    return out


def run(tier, seed):
    t0 = time.time()
    rnd = random.Random(seed)
    V = C.Verdict(PID)
    thorough = tier == "thorough"
    cov = {}
    states = trans = 0
    base = dict(Universe=c04.U2, MaxCreates=2, MaxStmts=5 if thorough else 4, Kinds='{"index","unique"}', Spells=c04.SS, Lean="TRUE",
                Others=OTHERS)
    r = c04.mc(c04.consts(**base), "C13 contract")
    states += r.distinct
    trans += r.generated
    cov["model_checked"] = [{"config": f"8 kinds, <= {base['MaxStmts']} statements", "distinct_states": r.distinct}]
    g = c04.mc(c04.consts(WithHist="TRUE", **dict(base, MaxStmts=4)), "C13 generation")
    behs = [b for b in g.beh if not b["err"]]
    cov["behaviours"] = len(behs)
    modes = MODES if thorough else ["sql", "bigquery"] + rnd.sample([m for m in MODES if m not in ("sql", "bigquery")], 2)
    seeds = [seed * 3 + i for i in range(3 if thorough else 1)]
    tasks, meta = [], []
    for b in behs:
        for sd in seeds:
            text, ncom = render(b["hist"], sd)
            ms = modes if thorough or len(b["hist"]) >= 3 else modes[:2]
            for m in ms:
                tasks.append((text, {}, {"output_mode": m}))
                tasks.append((text, {}, {"output_mode": m, "group_by_type": True}))
                meta.append((b, text, m, ncom))
    outs, nuniq = C.parse_many(tasks)
    ncmp = 0
    drift = 0
    for k, (b, text, m, ncom) in enumerate(meta):
        flat, grp = outs[2 * k], outs[2 * k + 1]
        case = {"ddl": text, "mode": m, "abstract": [s["k"] if s["k"] != "other" else s["x"] for s in b["hist"]]}
        if flat[0] != "ok" or grp[0] != "ok":
            V.mismatch(dict(case, problem="run raised", flat=flat[:3], grouped=grp[:3]))
            continue
        flat, grp = flat[1], grp[1]
        ncmp += 1
        comments = [e for e in flat if "comments" in e]
        ents = [e for e in flat if "comments" not in e]
        kinds = [R.project_entity(e)["kind"] for e in ents]
        want = [e["kind"] for e in b["ents"]]
        if kinds != want:
            V.mismatch(dict(case, problem="flat result is not the declared entity sequence", expected=want, observed=kinds))
            continue
        for e, kd in zip(ents, kinds):
            if {x for x in ALLKEYS if x in e} != MARKERS[kd]:
                drift += 1
        if not isinstance(grp, dict):
            V.mismatch(dict(case, problem="grouped result is not a dict"))
            continue
        exp = {bk: [ents[i - 1] for i in idx] for bk, idx in b["grouped"].items()}
        if comments:
            exp["comments"] = comments[0]["comments"]
        if set(grp) != set(exp):
            V.mismatch(dict(case, problem="bucket set differs", expected=sorted(exp), observed=sorted(grp)))
            continue
        bad = [bk for bk in exp if grp[bk] != exp[bk]]
        if bad:
            V.mismatch(dict(case, problem="bucket content differs from the regrouped flat result", buckets=bad,
                            expected={x: exp[x] for x in bad}, observed={x: grp[x] for x in bad}))
    # ---- scripts outside the generator's kinds: whatever the flat list holds must be in exactly one bucket, unchanged, in order -------
    specials = ["DROP TABLE d1;\nCREATE TABLE t1 (a int);\nDROP TABLE s1.d2;\n",
                "CREATE SCHEMA IF NOT EXISTS audit;\nCREATE SCHEMA IF NOT EXISTS audit;\nCREATE SEQUENCE s1 START 1;\nCREATE SEQUENCE s1 START 1;\n",
                "CREATE DATABASE db1;\nCREATE TABLESPACE ts1;\nCREATE DATABASE db1;\nCREATE TYPE ty AS ENUM ('a');\nCREATE TYPE ty AS ENUM ('a');\n",
                "CREATE TABLE t1 (a int);\nCREATE TABLE t1 (a int);\nSET x = 1;\nSET x = 1;\n-- c\n",
                "CREATE DATABASE sales TABLESPACE fast_ts;\nCREATE SCHEMA sc2 TABLESPACE ts2;\nCREATE TABLE t9 (a int) TABLESPACE ts3;\n",
                "SET search_path = audit, pg_catalog;\nSET search_path TO a, public;\nSET x = 1;\nCREATE TABLE t1 (a int);\n",
                "", "\n", "GO\nUSE db;\n", "-- only comment\n"]
    # the bucket each statement kind belongs to (by the statement, not by the keys its entity happens to carry)
    want_buckets = {"CREATE DATABASE": "databases", "CREATE TABLESPACE": "tablespaces", "CREATE SCHEMA": "schemas", "CREATE SEQUENCE": "sequences", "CREATE TYPE": "types",
                    "CREATE TABLE": "tables", "CREATE DOMAIN": "domains"}
    st = []
    for sp_ in specials:
        for m in modes:
            st.append((sp_, {}, {"output_mode": m}))
            st.append((sp_, {}, {"output_mode": m, "group_by_type": True}))
    so, _ = C.parse_many(st)
    for k2 in range(0, len(st), 2):
        flat, grp = so[k2], so[k2 + 1]
        case = {"ddl": st[k2][0], "mode": st[k2][2]["output_mode"]}
        if flat[0] != "ok" or grp[0] != "ok":
            V.mismatch(dict(case, problem="run raised", flat=flat[:3], grouped=grp[:3]))
            continue
        ncmp += 1
        if not isinstance(grp[1], dict) or any(b not in grp[1] for b in ("tables", "types", "sequences", "domains", "schemas", "ddl_properties")):
            V.mismatch(dict(case, problem="grouped result lacks an always-present bucket", observed=grp[1] if not isinstance(grp[1], dict) else sorted(grp[1])))
            continue
        ents = [e for e in flat[1] if "comments" not in e]
        regrouped = [e for b, v in grp[1].items() if b != "comments" for e in v]
        if sorted(json.dumps(e, sort_keys=True) for e in ents) != sorted(json.dumps(e, sort_keys=True) for e in regrouped):
            V.mismatch(dict(case, problem="the buckets do not hold exactly the entities of the flat list", flat=ents, grouped=grp[1]))
            continue
        import re as _re
        for kw_, b_ in want_buckets.items():
            n_stmt = len(_re.findall(r"(?mi)^" + kw_ + r"\b", st[k2][0]))
            n_in = len([e for e in grp[1].get(b_, [])])
            if kw_ != "CREATE TABLE" and n_stmt != n_in:
                V.mismatch(dict(case, problem=f"{n_stmt} {kw_} statement(s) but {n_in} entities in the bucket `{b_}`", grouped={k_: len(v_) for k_, v_ in grp[1].items()}))
                break
        for b, v in grp[1].items():
            if b != "comments":
                idx = [ents.index(e) for e in v]
                if [json.dumps(e, sort_keys=True) for e in v] != [json.dumps(e, sort_keys=True) for e in ents if e in v] or any(R.project_entity(e)["kind"].startswith("?") for e in v):
                    V.mismatch(dict(case, problem="bucket order differs from the flat order / entity of unknown kind", bucket=b))
    # ---- statement-prefix matrix and scripts whose ALTER / INDEX target is not defined (before them): whatever the flat call returns, the
    #      grouped call must return the same entities regrouped (only judged when BOTH calls return; on the pinned tree the unknown-target
    #      scripts raise under both settings and several prefix forms yield nothing - neither is demanded here) ------------------------------
    tails = {"DATABASE": "d1", "SCHEMA": "sc1", "TABLE": "t1 (a int)", "SEQUENCE": "sq1 START 1", "TABLESPACE": "ts1", "TYPE": "ty1 AS ENUM ('a')", "DOMAIN": "dm1 AS int"}
    loose = [f"CREATE {o}{md}{k} {ine}{tl};\nCREATE TABLE z9 (b int);\n" for k, tl in tails.items() for o in ("", "OR REPLACE ")
             for md in ("", "TRANSIENT ", "TEMPORARY ", "GLOBAL TEMPORARY ", "EXTERNAL ", "BIGFILE ") for ine in ("", "IF NOT EXISTS ")]
    loose += ["ALTER TABLE nope ADD UNIQUE (a);\nCREATE TABLE nope (a int);\n", "CREATE TABLE t1 (a int);\nCREATE INDEX i1 ON nope (a);\nCREATE SEQUENCE s1 START 1;\n",
              "CREATE TABLE t1 (a int);\nALTER TABLE s9.t1 ADD CONSTRAINT fk1 FOREIGN KEY (a) REFERENCES p (x);\n", "CREATE UNIQUE INDEX i1 ON nope (a);\n",
              "ALTER TABLE nope DROP COLUMN a;\nALTER TABLE nope RENAME COLUMN a TO b;\n", "DROP TABLE nope;\nALTER TABLE nope ADD UNIQUE (a);\n"]
    lt = []
    lmodes = modes if thorough else modes[:2]
    for sp_ in loose:
        for m in lmodes:
            lt.append((sp_, {}, {"output_mode": m}))
            lt.append((sp_, {}, {"output_mode": m, "group_by_type": True}))
    lo, _ = C.parse_many(lt)
    nloose = 0
    for k2 in range(0, len(lt), 2):
        flat, grp = lo[k2], lo[k2 + 1]
        case = {"ddl": lt[k2][0], "mode": lt[k2][2]["output_mode"]}
        if flat[0] != "ok" or grp[0] != "ok":
            continue
        nloose += 1
        ncmp += 1
        ents = [e for e in flat[1] if "comments" not in e]
        if not isinstance(grp[1], dict):
            V.mismatch(dict(case, problem="grouped result is not a dict"))
            continue
        regrouped = [e for b, v in grp[1].items() if b != "comments" for e in v]
        if sorted(json.dumps(e, sort_keys=True) for e in ents) != sorted(json.dumps(e, sort_keys=True) for e in regrouped):
            V.mismatch(dict(case, problem="the buckets do not hold exactly the entities of the flat list", flat=ents, grouped=grp[1]))
    cov["prefix_matrix_and_unknown_targets_both_returned"] = nloose
    # ---- the relation also holds when the same call dumps its result (the dump must not touch what is returned) ---------------------------
    dsc = ["CREATE TABLE t1 (a int); -- c1\nCREATE SEQUENCE s1 START 1; /* c2 */\nCREATE SCHEMA sc1;\n-- c3\nCREATE TYPE ty AS ENUM ('a'); -- c4\n",
           "CREATE TABLE t1 (a int);\nALTER TABLE t1 ADD UNIQUE (a); -- only comment\n", "CREATE DATABASE d1;\nCREATE TABLESPACE ts1; -- x\nSET q = 1;\n"]
    dt = [(t_, m_, vf) for t_ in dsc for m_ in ("sql", "mysql", "hql") for vf in (False, True)]
    for (t_, m_, vf), (fl, gr) in zip(dt, C.pool().map(_dump_pair, dt, 1)):
        case = {"ddl": t_, "mode": m_, "entry": "parse_from_file(dump=True)" if vf else "run(dump=True, file_path=..)"}
        if fl[0] != "ok" or gr[0] != "ok":
            V.mismatch(dict(case, problem="run raised", flat=fl[:3], grouped=gr[:3]))
            continue
        ncmp += 1
        fe = [e for e in fl[1] if "comments" not in e]
        fc = [c for e in fl[1] if "comments" in e for c in e["comments"]]
        ge = [e for b_, v_ in gr[1].items() if b_ != "comments" for e in v_]
        if sorted(json.dumps(e, sort_keys=True) for e in fe) != sorted(json.dumps(e, sort_keys=True) for e in ge) or list(gr[1].get("comments", [])) != fc:
            V.mismatch(dict(case, problem="with dump=True the grouped result is not the regrouping of the flat result (entities / comments)", flat=fl[1], grouped=gr[1]))
    # ---- the end-to-end composition (spec/System.tla): grouped vs flat presentation of every script of <= 3 statements
    from .. import sys_check as SY
    sc, ss, st, sn = SY.leg(V, tier, seed, "C13: <=3 statements, grouped and flat", [k for k in SY.ALL_KINDS if k not in ("go", "view")], MaxStmts=3,
                            Groups=SY.bset([True, False]), cap=5000 if tier == "quick" else 40000,
                            negative=("group_drops_markerless", "GroupLossless", {"MaxStmts": 2, "Groups": SY.bset([True])}))
    cov_system = sc
    states += ss
    trans += st
    rc = V.finish()
    smp = meta[len(meta) // 2]
    cov["system_composition"] = cov_system
    cov.update({"states": states, "transitions": trans, "traces_validated_against_impl": ncmp, "distinct_real_parses": nuniq,
                "modes": modes, "seeds": seeds, "model_drift": {"entities_with_unexpected_marker_keys": drift},
                "samples": [{"abstract": [s["k"] if s["k"] != "other" else s["x"] for s in smp[0]["hist"]], "ddl": smp[1],
                             "mode": smp[2], "expected_grouping": smp[0]["grouped"]}], "exhaustive": True})
    C.write_evidence(PID, tier, seed, cov, time.time() - t0, len(V.viol),
                     ["entity forms per kind are drawn by seed from a small pool", "a trailing SET statement is given a following "
                      "line (it is otherwise not emitted: C03 finding)", "TLC, PLY, CPython trusted"])
    return rc


def replay(path):
    return C.generic_replay(path)
