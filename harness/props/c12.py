"""C12 Successful output always has the documented shape and is JSON-serialisable.

Decided by the ShapeOK / TypeOK invariants of spec/TableFold.tla, Registry.tla, Entities.tla and Clauses.tla (model-checked
on the same configurations as C01/C02/C04/C11/C17) - the record shapes the specification itself works with are the
documented ones - and bound to the code by validating the shape of EVERY result the real library returns for the
behaviours those specifications generate and for the regression corpus, in every output mode x normalize_names x
group_by_type, together with `json.loads(run(json_dump=True)) == run()` and `run(json_dump=True) == json.dumps(run())`.
"""
import json
import random
import time

from .. import common as C
from .. import clauses as K
from .. import corpus as CP
from .. import registry as R
from .. import tablefold as T
from .. import entities as E
from .. import tf_check as TF
from .. import ent_check as EF
from . import c04, c11

PID = "C12"
TABLE_KEYS = ("table_name", "primary_key", "columns", "alter", "checks", "index", "partitioned_by", "tablespace")
COL_KEYS = ("name", "type", "size", "references", "unique", "nullable", "default", "check")
BUCKETS = ("tables", "types", "sequences", "domains", "schemas", "ddl_properties")


def _plain(n):
    return n.strip('`"[]').lower() if isinstance(n, str) else n


def shape_problems(res, mode, grouped, strict_pk=True, normalized=False):
    """-> list of (path, what)"""
    out = []
    if grouped:
        if not isinstance(res, dict):
            return [("result", "grouped result is not a dict")]
        for b in BUCKETS:
            if not isinstance(res.get(b), list):
                out.append((b, "bucket missing or not a list"))
        ents = [e for k, v in res.items() if k != "comments" and isinstance(v, list) for e in v]
        if "comments" in res and not all(isinstance(c, str) for c in res["comments"]):
            out.append(("comments", "non-string comment"))
    else:
        if not isinstance(res, list):
            return [("result", "flat result is not a list")]
        ents = res
    for i, e in enumerate(ents):
        if not isinstance(e, dict):
            out.append((f"{i}", "entity is not a dict"))
            continue
        if "table_name" not in e:
            continue
        sk = "dataset" if mode == "bigquery" else "schema"
        for k in TABLE_KEYS + (sk,):
            if k not in e:
                out.append((f"{i}.{k}", "table key missing"))
        if not isinstance(e.get("primary_key"), list):
            out.append((f"{i}.primary_key", "not a list"))
        if not isinstance(e.get("alter"), dict):
            out.append((f"{i}.alter", "not a dict"))
        for k in ("checks", "index", "partitioned_by", "columns"):
            if not isinstance(e.get(k), list):
                out.append((f"{i}.{k}", "not a list"))
        cols = e.get("columns") if isinstance(e.get("columns"), list) else []
        names = []
        for j, c in enumerate(cols):
            if not isinstance(c, dict):
                out.append((f"{i}.columns.{j}", "column is not a dict"))
                continue
            names.append(c.get("name"))
            for k in COL_KEYS:
                if k not in c:
                    out.append((f"{i}.columns.{j}.{k}", "column key missing"))
            for k in ("unique", "nullable"):
                if k in c and not isinstance(c[k], bool):
                    out.append((f"{i}.columns.{j}.{k}", "not a boolean"))
        al = e.get("alter") if isinstance(e.get("alter"), dict) else {}
        moved = any(k in al for k in ("dropped_columns", "renamed_columns", "modified_columns"))
        if strict_pk and isinstance(e.get("primary_key"), list) and moved and not any(k in al for k in ("dropped_columns", "modified_columns")):
            # only RENAME COLUMN happened: a key name is a current column name or the name a column had BEFORE it was renamed (the pinned tree
            # leaves the old name in primary_key) - never a name no column ever had
            try:
                olds = {_plain(r_["from"]) for r_ in al.get("renamed_columns", []) if isinstance(r_, dict)}
            except Exception:  # noqa
                olds = None
            if olds is not None:
                ever = {_plain(x) for x in names} | olds
                for n in e["primary_key"]:
                    if isinstance(n, str) and _plain(n) not in ever:
                        out.append((f"{i}.primary_key", f"{n!r} was never the name of a column of the table"))
        if strict_pk and isinstance(e.get("primary_key"), list) and not moved:
            # with normalize_names=True every name is reported without delimiters, so a key name must be a column name as it stands
            plain = set(names) if normalized else {_plain(x) for x in names}
            for n in e["primary_key"]:
                if (n if normalized else _plain(n)) not in plain:
                    out.append((f"{i}.primary_key", f"{n!r} is not a column of the table"))
    return out


def _task(t):
    text, ctor, run = t[:3]
    strict_pk = t[3] if len(t) > 3 else True
    lib = C._import_lib()
    try:
        r = lib.DDLParser(text, **ctor).run(**run)
    except BaseException as e:  # noqa
        return ("exc", type(e).__name__)
    probs = shape_problems(r, run.get("output_mode", "sql"), run.get("group_by_type", False), strict_pk, bool(ctor.get("normalize_names")))
    try:
        enc = json.dumps(r)
    except Exception as e:  # noqa
        return ("ok", probs + [("json", "result is not JSON-serialisable: " + str(e)[:100])], None)
    try:
        dumped = lib.DDLParser(text, **ctor).run(json_dump=True, **run)
    except BaseException as e:  # noqa
        return ("ok", probs + [("json_dump", "json_dump=True raised " + type(e).__name__)], None)
    if not isinstance(dumped, str) or dumped != enc:
        probs.append(("json_dump", "json_dump=True is not the JSON encoding of the result"))
    elif json.loads(dumped) != json.loads(enc):
        probs.append(("json_dump", "round trip differs"))
    return ("ok", probs, None)


def run(tier, seed):
    t0 = time.time()
    rnd = random.Random(seed)
    V = C.Verdict(PID)
    thorough = tier == "thorough"
    cov = {"model_checked": []}
    states = trans = 0
    inputs = []
    # --- behaviours of every generator (their ShapeOK / TypeOK invariants are checked by the same TLC runs) -------------------------
    g = TF.mc(TF.consts(WithHist="TRUE", TypeForms='{"vc","dp"}', MaxOpts=2, ItemKinds=TF.ALLITEMS, ItemCols=TF.IC4, MaxItems=1, Refs='{"r2"}'), "tablefold")
    states += g.distinct
    trans += g.generated
    wf = [b for b in g.beh if all(set(a["it"]["cs"]) <= set("abcd"[:sum(1 for x in b["hist"] if x["a"] == "col")])
                                  for a in b["hist"] if a["a"] == "item")]     # items only name declared columns (well-formed DDL)
    sel = wf if thorough else rnd.sample(wf, min(len(wf), 300))
    for b in sel:
        inputs.append(("tablefold", T.render(b["hist"], seed, schema="s1", nm=T.name_map(seed + len(b["hist"]))) + "\n", {}, sorted(TF.spec_tags(b))))
    print(f"  t={time.time()-t0:.0f}s tablefold done", flush=True)
    g = c04.mc(c04.consts(WithHist="TRUE", Universe=c04.U1, MaxCreates=1, MaxStmts=3, Spells=c04.SS, CNames='{"","k1"}'), "registry")
    print(f"  t={time.time()-t0:.0f}s registry done", flush=True)
    states += g.distinct
    trans += g.generated
    sel = [b for b in g.beh if not b["err"] and b["hist"]]
    sel = sel if thorough else c04.stratified(sel, rnd, 400)
    for b in sel:
        inputs.append(("registry", R.render(b["hist"], seed)[0], {}, []))
    g = EF.mc(EF.consts(WithHist="TRUE", MaxOpts=2, MaxStmts=2, Kinds=E.tla_kinds(E.CATALOG), groups=["start", "cache", "order"]), "entities")
    states += g.distinct
    trans += g.generated
    sel = [b for b in g.beh if b["hist"]]
    sel = sel if thorough else rnd.sample(sel, min(len(sel), 200))
    for b in sel:
        inputs.append(("entities", E.render(b["hist"], seed)[0], {}, []))
    ids = sorted(K.CAT)
    g = c11.mc(K.tla_consts(ids, sorted(K.BODIES), MaxClauses=2, WithHist="TRUE"), "clauses")
    states += g.distinct
    trans += g.generated
    sel = [b for b in g.beh if b["clauses"]]
    sel = sel if thorough else rnd.sample(sel, min(len(sel), 200))
    for b in sel:
        inputs.append(("clauses", K.render(b) + "\n", {}, []))
    # every clause of the catalogue ONCE, in every mode and flag configuration (a dialect class that re-shapes the table for one clause only)
    singles = {}
    for b in g.beh:
        if len(b["clauses"]) == 1:
            singles.setdefault(b["clauses"][0], b)
    for cid_, b in sorted(singles.items()):
        inputs.append((f"special:clause:{cid_}", K.render(b) + "\n", {}, []))
    # RENAME COLUMN next to a key: names that contain one another (id / order_id), every key declaration style
    for i, kd in enumerate(["PRIMARY KEY (order_id)", "CONSTRAINT pk1 PRIMARY KEY (order_id, id)", "PRIMARY KEY (id, order_id)"]):
        inputs.append((f"special:rename{i}", f"CREATE TABLE tr{i} (id int NOT NULL, order_id int NOT NULL, code varchar(5), {kd});\nALTER TABLE tr{i} RENAME COLUMN code TO item_code;\n"
                       + (f"ALTER TABLE tr{i} RENAME COLUMN id TO uid;\n" if i != 1 else ""), {}, []))
    inputs.append(("special:rename-inline", "CREATE TABLE tr9 (id int, order_id int PRIMARY KEY, r int);\nALTER TABLE tr9 RENAME COLUMN id TO uid;\nALTER TABLE tr9 RENAME COLUMN r TO order;\n", {}, []))
    print(f"  t={time.time()-t0:.0f}s generators done", flush=True)
    # scripts that yield no entity at all, or only non-table entities: the shape rules (list / bucket dict / JSON string) still apply
    for i, t in enumerate(["", "\n", "GO\n", "USE db1;\nGRANT ALL ON x TO y;\n", "-- only a comment\n", "INSERT INTO t VALUES (1);\n",
                           "SET a = 1;\n", "CREATE SEQUENCE s1 START 1;\nSET b = 2;\n", "/* block */\nCREATE SCHEMA sc1;\n"]):
        inputs.append((f"special:{i}", t, {}, []))
    # statements that yield a table entry without defining columns, and every numeric / literal default form on every size form
    for i, t in enumerate(["DROP TABLE d1;\n", "DROP TABLE s1.d2;\nCREATE TABLE t1 (a int);\n", "CREATE TABLE t2 LIKE t1;\n", "CREATE TABLE t3 (LIKE t1);\n",
                           "CREATE TABLE t4 CLONE t1;\n", "CREATE TABLE t5 (a int);\nALTER TABLE t5 ADD UNIQUE (a);\nCREATE INDEX i1 ON t5 (a);\n"]):
        inputs.append((f"columnless:{i}", t, {}, []))
    for i, t in enumerate(['CREATE TABLE "Orders" ("order_id" int NOT NULL, `customer_id` int, [amount] decimal(10,2), CHECK ("amount" > 0), PRIMARY KEY ("order_id", `customer_id`), UNIQUE ([amount]));\n',
                           'CREATE TABLE s1.[T 2] ([Id] int, "b" int CHECK ("b" > 1), `c` int, CONSTRAINT "Pk 1" PRIMARY KEY ([Id], `c`));\nALTER TABLE s1.[T 2] ADD CONSTRAINT "Fk 1" FOREIGN KEY ("b") REFERENCES "o" ("x");\n',
                           'CREATE TABLE `t3` (`a` int PRIMARY KEY CHECK (`a` > 0), "b" int REFERENCES [o] ([x]), PRIMARY KEY (`a`));\n']):
        inputs.append((f"special:delimited{i}", t, {}, []))
        inputs.append((f"special:delimited-compact{i}", t.replace(", ", ","), {}, []))       # no blank after the separators
    for i, t in enumerate(['CREATE TABLE orders (id int NOT NULL,"order" int,name varchar(10),PRIMARY KEY (id,"order"));\n',
                           'CREATE TABLE "o2" ("id" int NOT NULL,"k2" int NOT NULL,"name" varchar(10),PRIMARY KEY ("id","k2"),UNIQUE ("name"));\n',
                           'CREATE TABLE o3 (\nid int NOT NULL,\n"k2" int,\n`k3` int,\nPRIMARY KEY (id,\n"k2",\n`k3`)\n);\n']):
        inputs.append((f"special:compact-keys{i}", t, {}, []))
    # key clauses of every spelling: the key list holds column names only (no ASC / DESC / CLUSTERED words)
    for i, kw_ in enumerate(["PRIMARY KEY", "PRIMARY KEY CLUSTERED", "PRIMARY KEY NONCLUSTERED", "CONSTRAINT pk1 PRIMARY KEY", "CONSTRAINT pk1 PRIMARY KEY CLUSTERED",
                             "CONSTRAINT [pk 1] PRIMARY KEY NONCLUSTERED"]):
        for cols_ in ("(a)", "(a, b)", "(a ASC)", "(a ASC, b DESC)", "([a] ASC, [b] DESC)", "(a DESC, b)"):
            names_ = "[a] int NOT NULL, [b] int NOT NULL" if "[" in cols_ else "a int NOT NULL, b int NOT NULL"
            inputs.append((f"special:key{i}", f"CREATE TABLE tk ({names_}, c varchar(5), {kw_} {cols_});\n", {}, []))
    tys = ["int", "decimal(10,2)", "numeric(12,4)", "number(8,4)", "float", "varchar(10)", "double precision", "number(*,2)"]
    dfs = ["0", "5", "-1", "0.00", "1.5", "+2.50", "-0.2000", "1e5", "'x'", "'0.00'", "NULL", "CURRENT_TIMESTAMP", "(1.25)", "now()", "TRUE", "12345678901234567890", ".5"]
    for i, ty in enumerate(tys):
        cols = ", ".join(f"c{j} {ty} DEFAULT {d}" for j, d in enumerate(dfs))
        inputs.append((f"defaults:{ty}", f"CREATE TABLE td{i} (k int, {cols});\n", {}, []))
        inputs.append((f"defaults-alter:{ty}", f"CREATE TABLE ta{i} (k int);\n" + "".join(f"ALTER TABLE ta{i} ADD c{j} {ty} DEFAULT {d};\n" for j, d in enumerate(dfs)), {}, []))
    corp = CP.harvest()
    for i, r in enumerate(corp):
        inputs.append((f"corpus:{i}", r["text"], r["ctor"], []))
    cov["inputs"] = {"generated": len(inputs) - len(corp), "corpus": len(corp)}
    allmodes = K.MODES
    modes = K.MODES if thorough else ["sql", "bigquery", "hql"] + rnd.sample([m for m in K.MODES if m not in ("sql", "bigquery", "hql")], 1)
    tasks, meta = [], []
    for lab, text, ctor, tags in inputs:
        for m in (allmodes if lab.startswith(("special", "columnless", "defaults")) else modes):
            for nn in (False, True):
                for gb in (False, True):
                    few = lab.startswith(("special", "columnless", "defaults"))      # the hand-written scripts run in every configuration
                    if few:
                        pass
                    elif (not thorough and ((nn or gb) and rnd.random() < 0.75 or (m != "sql" and rnd.random() < 0.4))) or \
                            (thorough and m not in ("sql", "bigquery", "hql") and rnd.random() < 0.7):
                        continue
                    c = dict(ctor)
                    if nn:
                        c["normalize_names"] = True
                    ru = {"output_mode": m}
                    if gb:
                        ru["group_by_type"] = True
                    # corpus scripts are not all well-formed (a key may name an undeclared column): key-in-columns not judged there
                    tasks.append((text, c, ru, not lab.startswith("corpus")))
                    meta.append((lab, tags))
    print(f"  t={time.time()-t0:.0f}s {len(tasks)} tasks", flush=True)
    outs = C.pool().map(_task, tasks, 64)
    nok = 0
    for (lab, tags), tk, o in zip(meta, tasks, outs):
        if o[0] != "ok":
            continue  # a raising input is not "successfully parsed DDL" (C16 / C04 / C10 judge it)
        nok += 1
        if o[1]:
            V.mismatch({"input": lab, "ddl": tk[0][:1200], "ctor": tk[1], "run": tk[2], "problems": o[1][:6]}, tags=tags,
                       paths=[p for p, _ in o[1]])
    rc = V.finish()
    cov.update({"states": states, "transitions": trans, "traces_validated_against_impl": nok, "runs": len(tasks), "modes": list(modes),
                "samples": [{"input": inputs[0][0], "ddl": inputs[0][1], "run": tasks[0][2]}], "exhaustive": False})
    C.write_evidence(PID, tier, seed, cov, time.time() - t0, len(V.viol),
                     ["primary_key names are checked against the column list only for tables without dropped / renamed / modified columns",
                      "the inner shape of `references` is not pinned by the property", "TLC, PLY, CPython trusted"])
    return rc


def replay(path):
    d = json.load(open(path))
    bad = 0
    for v in d["violations"]:
        o = _task((v["ddl"], v.get("ctor", {}), v.get("run", {})))
        print(("STILL-FAILS " if o[0] == "ok" and o[1] else "passes now  ") + v["ddl"].replace("\n", " | ")[:160])
        bad += bool(o[0] == "ok" and o[1])
    return 1 if bad else 0
