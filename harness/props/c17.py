"""C17 CREATE SEQUENCE options are reported with exact values, in any order.

Decided by spec/Entities.tla: OneKeyPerOption (the dict p_expression_seq builds holds exactly one key per written option
with the written value), NoLeak (finished entities never change) and SeqModeLocal (the lexer's sequence-keyword mode is
confined to the sequence statement) are model-checked over every ordered choice of <= 4 of the 6 option groups x both
forms per group, alone and in scripts where the sequence stands between a table whose columns are named like sequence
keywords and a second sequence; the configuration that does not reset the mode flag must be refuted.  Every complete
behaviour is rendered (keyword case, quoted names, values incl. negative and 64-bit by seed) and parsed by the real
library; each sequence entity must equal, key for key and type for type, what TLC computed.
"""
import random
import time

from .. import common as C
from .. import entities as E
from .. import ent_check as F

PID = "C17"


def _two_objects(t):
    lib = C._import_lib()
    t1, t2 = t

    def out(fn):
        try:
            return ["ok", C.jnorm(fn())]
        except BaseException as e:  # noqa
            return ["exc", type(e).__name__]
    alone = out(lambda: lib.DDLParser(t1).run())
    p1 = lib.DDLParser(t1)
    p2 = lib.DDLParser(t2)
    out(p2.run)
    return alone, out(p1.run)


def run(tier, seed):
    t0 = time.time()
    V = C.Verdict(PID)
    thorough = tier == "thorough"
    cov = {"model_checked": [], "generation": []}
    states = trans = 0
    mcs = [("1 sequence, <=4 of 6 groups x 2 forms", F.consts(MaxOpts=4)),
           ("3 statements: sequences / keyword-named table, <=2 options", F.consts(MaxOpts=2, MaxStmts=3, WithTable="TRUE", Values='{"v1"}',
                                                                          groups=["start", "cache"]))]
    if thorough:
        mcs += [("1 sequence, all 6 groups", F.consts(MaxOpts=6)), ("<=5 options, 3 values", F.consts(MaxOpts=4, Values='{"v1","vn","vB"}'))]
    for what, cs in mcs:
        r = F.mc(cs, what, timeout=1800)
        states += r.distinct
        trans += r.generated
        cov["model_checked"].append({"config": what, "distinct_states": r.distinct, "wall_s": round(r.wall, 1)})
    F.mc(F.consts(MaxOpts=1, MaxStmts=2, WithTable="TRUE", ResetSeq="FALSE"), "sequence mode not reset", expect="SeqModeLocal")
    cov["negative_controls"] = ["ResetSeq=FALSE refutes SeqModeLocal"]

    vals = '{"v1","vn","vB","vm"}'
    gens = [("orders", F.consts(WithHist="TRUE", MaxOpts=4, Values='{"v7"}')),
            ("values", F.consts(WithHist="TRUE", MaxOpts=2, Values="{" + ", ".join(f'"{v}"' for v in E.VALUES) + "}", groups=["increment", "start", "minvalue", "cache"])
             if thorough else F.consts(WithHist="TRUE", MaxOpts=1, Values="{" + ", ".join(f'"{v}"' for v in E.VALUES) + "}")),
            ("leak", F.consts(WithHist="TRUE", MaxOpts=1, MaxStmts=3, WithTable="TRUE", Values='{"vm"}', groups=["start", "cache", "minvalue", "order"]))]
    if thorough:
        gens.append(("five groups", F.consts(WithHist="TRUE", MaxOpts=5, Values='{"vB"}', groups=["increment", "start", "minvalue", "maxvalue", "cache", "order"][:5])))
        gens.append(("six groups (simulation)", None))
    seeds = [seed * 11 + i for i in range(2 if not thorough else 4)]
    total = uniq = 0
    sample = None
    for what, cs in gens:
        if cs is None:
            g = F.mc(F.consts(WithHist="TRUE", MaxOpts=6, Values='{"v1","vn","vB","vm"}'), what, timeout=1800, simulate="num=20000", depth=10, seed=seed + 1)
            g.beh = list({repr(b["hist"]): b for b in g.beh}.values())
        else:
            g = F.mc(cs, "generation " + what, timeout=1800)
        print(f"  gen {what}: {len(g.beh)} behaviours, TLC {g.wall:.1f}s", flush=True)
        n, nu, nbad = F.compare(V, g.beh, seeds, what)
        total += n
        uniq += nu
        if what == "orders":
            # every other output mode gets a slice
            from .. import clauses as KM
            others = [m for m in KM.MODES if m != "sql"]
            msub = g.beh[:2800]
            for mi, m in enumerate(others):
                n2, nu2, _ = F.compare(V, msub[mi::len(others)] if m != "bigquery" else msub[::7], seeds[:1], "orders/" + m, run={"output_mode": m})
                total += n2
                uniq += nu2
        if what == "leak":
            # two parser objects alive at once, scripts that mix sequences and tables: the object constructed first runs last
            pairs = [(E.render(b["hist"], seeds[0])[0], E.render(g.beh[(i * 7 + 3) % len(g.beh)]["hist"], seeds[0])[0]) for i, b in enumerate(g.beh[::max(1, len(g.beh) // 300)])]
            for (t1, t2), (alone, first_last) in zip(pairs, C.pool().map(_two_objects, pairs, 8)):
                if alone != first_last:
                    V.mismatch({"what": "two parser objects alive: p1 = DDLParser(a); p2 = DDLParser(b); p2.run(); p1.run()", "ddl": t1, "other": t2, "paths": ["two_objects"],
                                "expected": alone, "observed": first_last}, paths=["two_objects"])
            total += len(pairs)
        cov["generation"].append({"config": what, "behaviours": len(g.beh), "renderings": n, "mismatches": nbad})
        if what == "leak":
            b = g.beh[len(g.beh) // 2]
            text, exp = E.render(b["hist"], seeds[0])
            sample = {"abstract": b["hist"], "ddl": text, "expected": [e for (_, e, _, _) in exp]}
    rc = V.finish()
    cov.update({"states": states, "transitions": trans, "traces_validated_against_impl": total, "distinct_real_parses": uniq,
                "seeds": seeds, "samples": [sample], "exhaustive": True})
    C.write_evidence(PID, tier, seed, cov, time.time() - t0, len(V.viol),
                     ["integer values are pool entries (0, 1, -1, 1000, 2^31, 2^63-1, -2^63, ...)", "keyword case chosen per keyword by seed",
                      "TLC, PLY, CPython trusted"])
    return rc


def replay(path):
    import json
    d = json.load(open(path))
    bad = 0
    for v in d["violations"]:
        o = C.jnorm(C._do_parse((v["ddl"], v.get("ctor", {}), v.get("run", {}))))
        ok = o[0] == "ok" and [e for e in o[1] if "comments" not in e] == v["expected"]
        print(("passes now  " if ok else "STILL-FAILS ") + v["ddl"].replace("\n", " | ")[:220])
        bad += not ok
    return 1 if bad else 0
