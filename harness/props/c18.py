"""C18 Types, domains, schemas, databases, tablespaces yield one exact entity each.

Decided by spec/Entities.tla: OneEntityExact / NoLeak over every script of <= 3 declarations drawn from the catalogue of
declaration forms (TYPE AS ENUM / OBJECT / TABLE, DOMAIN, SCHEMA with IF NOT EXISTS / AUTHORIZATION / COMMENT, DATABASE,
[BIGFILE|SMALLFILE] [TEMPORARY] TABLESPACE, a table that uses the types) interleaved with sequences.  Every complete
behaviour is rendered and parsed by the real library: one entity per declaration, in order, of the declared kind, carrying
the catalogue's expected fields (schema, name, base type, values / attributes / columns, authorization, comment, kind,
temporary); the table reports the type names verbatim.
"""
import time

from .. import common as C
from .. import entities as E
from .. import ent_check as F

PID = "C18"


def run(tier, seed):
    t0 = time.time()
    V = C.Verdict(PID)
    thorough = tier == "thorough"
    cov = {"model_checked": [], "generation": []}
    states = trans = 0
    allk = E.tla_kinds(E.CATALOG)
    n = 3
    LATE = {("type", "table_opts"), ("type", "kw_key"), ("type", "kw_check"), ("type", "kw_schema_part"), ("type", "kw_default_table"), ("type", "kw_cap")}
    corek = E.tla_kinds({k: v for k, v in E.CATALOG.items() if k not in LATE})
    for what_, kinds_, n_ in ([("whole catalogue", allk, n)] if thorough else [("core of the catalogue", corek, n), ("whole catalogue", allk, 2)]):
        r = F.mc(F.consts(MaxOpts=1, MaxStmts=n_, Kinds=kinds_, groups=["start"]), f"<={n_} declarations, {what_} ({len(E.CATALOG)} forms) + sequences", timeout=1800)
        states += r.distinct
        trans += r.generated
        cov["model_checked"].append({"config": f"<={n_} declarations, {what_}", "distinct_states": r.distinct})
    F.mc(F.consts(MaxOpts=1, MaxStmts=2, WithTable="TRUE", ResetSeq="FALSE"), "sequence mode not reset", expect="SeqModeLocal")
    cov["negative_controls"] = ["ResetSeq=FALSE refutes SeqModeLocal"]
    # quick: triples over the core of the catalogue, pairs over the whole of it (the forms added last stand next to every other form once)
    genk = allk if thorough else corek
    g = F.mc(F.consts(WithHist="TRUE", MaxOpts=1, MaxStmts=n, Kinds=genk, groups=["start"], Values='{"v1"}'), "generation", timeout=1800)
    behs = g.beh
    if not thorough:
        g2 = F.mc(F.consts(WithHist="TRUE", MaxOpts=1, MaxStmts=2, Kinds=allk, groups=["start"], Values='{"v1"}'), "generation (pairs, whole catalogue)", timeout=1800)
        seen_ = {repr(b["hist"]) for b in behs}
        behs = behs + [b for b in g2.beh if repr(b["hist"]) not in seen_]
    seeds = [seed * 13 + i for i in range(1 if not thorough else 4)]
    total, uniq, nbad = F.compare(V, behs, seeds, "catalogue")
    tags = {}
    for b in behs:
        for a in b["hist"]:
            t = E.FINDING_TAG.get((a.get("k"), a.get("f")))
            if t:
                tags[t] = tags.get(t, 0) + 1
    cov["generation"].append({"config": "catalogue scripts", "behaviours": len(behs), "renderings": total, "mismatches": nbad, "spec_dev_tags": tags})
    # every other output mode gets a slice of the scripts of <=2 declarations (bigquery: a non-empty schema is reported as `dataset`)
    from .. import clauses as KM
    others = [m for m in KM.MODES if m != "sql"]
    sub = [b for b in behs if len(b["hist"]) <= 2]
    for mi, m in enumerate(others):
        part = sub if m == "bigquery" else sub[mi::len(others)]
        n2, nu2, _ = F.compare(V, part, seeds[:1], "catalogue/" + m, run={"output_mode": m})
        total += n2
        uniq += nu2
    b = behs[len(behs) // 2]
    text, exp = E.render(b["hist"], seeds[0])
    rc = V.finish()
    cov.update({"states": states, "transitions": trans, "traces_validated_against_impl": total, "distinct_real_parses": uniq, "seeds": seeds,
                "samples": [{"abstract": b["hist"], "ddl": text, "expected": [e for (_, e, _, _) in exp]}], "exhaustive": True,
                "known_findings_met": V.hits})
    C.write_evidence(PID, tier, seed, cov, time.time() - t0, len(V.viol),
                     ["declaration forms are the catalogue in harness/entities.py (expected fields written from the property text)",
                      "TLC, PLY, CPython trusted"])
    return rc


def replay(path):
    return C.generic_replay(path)
