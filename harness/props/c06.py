"""C06 Identifiers are verbatim; normalize_names only strips outer delimiters.

Decided by spec/Lexer.tla (t_ID and helpers transcribed branch for branch; validated token by token against the real lexer:
no drift): NameIsID - wherever a name is expected, every word except the clause openers is typed as an identifier - is
model-checked over statement templates (CREATE TABLE with schema-qualified name and column names in first / after-comma
positions, constraints, references, ALTER, CREATE INDEX, CREATE SEQUENCE) with one word per keyword signature class (computed
from the working tree's tokens.py) and the identifier forms in every name slot, and must be refuted when the name-position
guard is removed.  Replay: (drift) every behaviour through the real lexer, types and flags compared; (verdict) every
identifier form (lower, Mixed, UPPER, "dq", `bt`, [br]) in every naming position of a statement catalogue, and every grammar
keyword outside the exclusion list as a column name in three positions, parsed by the real library: the name must be reported
verbatim, and with normalize_names=True the whole output must equal the normalize_names=False output with exactly one pair of
outer delimiters removed from each identifier.
"""
import json
import random
import time

from .. import common as C
from .. import lexer as L
from .. import lex_check as F
from .. import tablefold as T

PID = "C06"
FORMS = {"lower": "abc_x", "mixed": "MiXed_Id", "upper": "UPPER_ID", "dq": '"My Col1"'.replace(" ", "_"), "bt": "`bt_name`", "br": "[br_name]", "dqU": '"QUOTED"',
         "pre1": "collateral_id", "pre2": "Auto_Increment_step", "pre3": "autoincrement_no", "dq_kw": '"desc"', "bt_kw": "`Asc`", "br_kw": "[order]", "dq_kw2": '"Comment"',
         "hash_end": "emp#", "hash_in": "ix#1", "hash_start": "#tmp_orders", "br_hash": "[Order#]", "bt_hash": "`Line#2`"}


def _file_with_settings(t):
    """-> (DDLParser(text, **settings).run(), parse_from_file(path, parser_settings=settings))"""
    import os
    import tempfile
    text, settings = t
    lib = C._import_lib()
    out = []
    for how in ("api", "file"):
        try:
            if how == "api":
                r = lib.DDLParser(text, **settings).run()
            else:
                with tempfile.NamedTemporaryFile("w", suffix=".sql", delete=False, encoding="utf-8") as f:
                    f.write(text)
                try:
                    r = lib.parse_from_file(f.name, parser_settings=dict(settings))
                finally:
                    os.unlink(f.name)
            out.append(("ok", C.jnorm(r)))
        except BaseException as e:  # noqa
            out.append(("exc", type(e).__name__, str(e)[:150]))
    return out


def strip1(s):
    if isinstance(s, str) and len(s) > 2 and ((s[0] == '"' and s[-1] == '"') or (s[0] == "`" and s[-1] == "`") or (s[0] == "[" and s[-1] == "]")):
        return s[1:-1]
    return s


# naming positions: (id, ddl template with {X}, extractor of the reported name from the result)
def _proj(t):
    return t["project"] if "project" in t else t["table_properties"]["project"]


def _col(i):
    return lambda r: r[0]["columns"][i]["name"]


POSITIONS = [
    ("schema", "CREATE TABLE {X}.t1 (a int, b int);", lambda r: r[0]["schema"]),
    ("table", "CREATE TABLE s1.{X} (a int, b int);", lambda r: r[0]["table_name"]),
    ("table_noschema", "CREATE TABLE {X} (a int, b int);", lambda r: r[0]["table_name"]),
    # project-qualified (three-part) paths: every part keeps its delimiters
    ("table_3part", "CREATE TABLE p1.s1.{X} (a int, b int);", lambda r: r[0]["table_name"]),
    ("schema_3part", "CREATE TABLE p1.{X}.t1 (a int, b int);", lambda r: r[0].get("schema", r[0].get("dataset"))),
    ("project_3part", "CREATE TABLE {X}.s1.t1 (a int, b int);", lambda r: _proj(r[0])),
    ("all_3part_table", "CREATE TABLE {X}.{X}.{X} (a int, b int);", lambda r: (_proj(r[0]), r[0]["table_name"])[1]),
    ("all_3part_project", "CREATE TABLE {X}.{X}.{X} (a int, b int);", lambda r: (r[0]["table_name"], _proj(r[0]))[1]),
    ("ref_3part_table", "CREATE TABLE t1 (a int REFERENCES {X}.{X}.{X} (id), b int);", lambda r: r[0]["columns"][0]["references"]["table"]),
    ("ref_3part_schema", "CREATE TABLE t1 (a int REFERENCES {X}.{X}.{X} (id), b int);", lambda r: r[0]["columns"][0]["references"]["schema"]),
    ("column_first", "CREATE TABLE t1 ({X} int, b int);", _col(0)),
    ("column_next", "CREATE TABLE t1 (a int, {X} varchar(5) NOT NULL, c int);", _col(1)),
    ("column_last", "CREATE TABLE t1 (a int, b int, {X} int DEFAULT 1);", _col(2)),
    ("column_compact", "CREATE TABLE t1 (a int,{X} text,c int);", _col(1)),
    ("column_compact_after_null", "CREATE TABLE t1 (a int NOT NULL,{X} int DEFAULT 1,c int);", _col(1)),
    ("column_line_start", "CREATE TABLE t1 (\na int,\n{X} varchar(5) NOT NULL,\nc int\n);", _col(1)),
    ("column_after_check", "CREATE TABLE t1 (a int CHECK (a > 0), {X} int, b int);", _col(1)),
    ("pk_list_after_check", "CREATE TABLE t1 (a int CHECK (a > 0), {X} int, PRIMARY KEY (a, {X}));", lambda r: r[0]["primary_key"][1]),
    ("constraint_after_check", "CREATE TABLE t1 (a int, b int, CHECK (a > b), CONSTRAINT {X} UNIQUE (a, b));", lambda r: r[0]["constraints"]["uniques"][0]["constraint_name"]),
    ("pk_list_2nd", "CREATE TABLE t1 (a int, {X} int, PRIMARY KEY (a, {X}));", lambda r: r[0]["primary_key"][1]),
    ("fk_list", "CREATE TABLE t1 (a int, {X} int, FOREIGN KEY (a, {X}) REFERENCES o (x, y));", lambda r: [c["name"] for c in r[0]["columns"] if c["references"]][1]),
    ("ref_column_2nd", "CREATE TABLE t1 (a int, b int, FOREIGN KEY (a, b) REFERENCES o (x, {X}));", lambda r: r[0]["columns"][1]["references"]["column"]),
    ("inline_key_column", "CREATE TABLE t1 ({X} int, b int, KEY idx1 ({X}));", lambda r: r[0]["index"][0]["columns"][0]),
    ("inline_key_name", "CREATE TABLE t1 (a int, b int, KEY {X} (a));", lambda r: r[0]["index"][0]["index_name"]),
    ("constraint", "CREATE TABLE t1 (a int, b int, CONSTRAINT {X} PRIMARY KEY (a));", lambda r: r[0]["constraints"]["primary_keys"][0]["constraint_name"]),
    ("constraint_unique", "CREATE TABLE t1 (a int, b int, CONSTRAINT {X} UNIQUE (a, b));", lambda r: r[0]["constraints"]["uniques"][0]["constraint_name"]),
    ("pk_list", "CREATE TABLE t1 ({X} int, b int, PRIMARY KEY ({X}));", lambda r: r[0]["primary_key"][0]),
    ("unique_list", "CREATE TABLE t1 (a int, {X} int, CONSTRAINT u1 UNIQUE (a, {X}));", lambda r: r[0]["constraints"]["uniques"][0]["columns"][1]),
    ("ref_table", "CREATE TABLE t1 (a int REFERENCES {X} (id), b int);", lambda r: r[0]["columns"][0]["references"]["table"]),
    ("ref_schema", "CREATE TABLE t1 (a int REFERENCES {X}.o (id), b int);", lambda r: r[0]["columns"][0]["references"]["schema"]),
    ("ref_column", "CREATE TABLE t1 (a int REFERENCES o ({X}), b int);", lambda r: r[0]["columns"][0]["references"]["column"]),
    ("fk_column", "CREATE TABLE t1 ({X} int, b int, FOREIGN KEY ({X}) REFERENCES o (id));", lambda r: [c for c in r[0]["columns"] if c["references"]][0]["name"]),
    ("index_name", "CREATE TABLE t1 (a int, b int);\nCREATE INDEX {X} ON t1 (a);", lambda r: r[0]["index"][0]["index_name"]),
    ("index_column", "CREATE TABLE t1 ({X} int, b int);\nCREATE INDEX i1 ON t1 ({X});", lambda r: r[0]["index"][0]["columns"][0]),
    ("index_target", "CREATE TABLE {X} (a int, b int);\nCREATE UNIQUE INDEX i1 ON {X} (a);", lambda r: (r[0]["table_name"], r[0]["index"][0]["index_name"])[0]),
    ("sequence", "CREATE SEQUENCE {X} START 1;", lambda r: r[0]["sequence_name"]),
    ("sequence_schema", "CREATE SEQUENCE {X}.sq1 START 1;", lambda r: r[0]["schema"]),
    ("type", "CREATE TYPE {X} AS ENUM ('a', 'b');", lambda r: r[0]["type_name"]),
    ("domain", "CREATE DOMAIN {X} AS varchar(5);", lambda r: r[0]["domain_name"]),
    ("alter_target", "CREATE TABLE {X} (a int, b int);\nALTER TABLE {X} ADD UNIQUE (a);", lambda r: (r[0]["table_name"], r[0]["alter"]["uniques"][0])[0]),
    ("alter_column", "CREATE TABLE t1 (a int, b int);\nALTER TABLE t1 ADD UNIQUE ({X});", lambda r: r[0]["alter"]["uniques"][0]["columns"][0]),
    ("alter_add_column", "CREATE TABLE t1 (a int, b int);\nALTER TABLE t1 ADD {X} int;", lambda r: r[0]["columns"][2]["name"]),
    ("alter_rename_to", "CREATE TABLE t1 (a int, b int);\nALTER TABLE t1 RENAME COLUMN a TO {X};", lambda r: r[0]["columns"][0]["name"]),
    ("alter_constraint", "CREATE TABLE t1 (a int, b int);\nALTER TABLE t1 ADD CONSTRAINT {X} UNIQUE (a);", lambda r: r[0]["alter"]["uniques"][0]["constraint_name"]),
]
KW_POS = [("column_and_pk_list", "CREATE TABLE t1 (a int, {X} int, PRIMARY KEY (a, {X}));", lambda r: (r[0]["columns"][1]["name"], r[0]["primary_key"][1])[1]),
          ("column_and_unique_first", "CREATE TABLE t1 (a int, {X} int, CONSTRAINT u1 UNIQUE ({X}, a));", lambda r: r[0]["constraints"]["uniques"][0]["columns"][0]),
          ("column_and_fk", "CREATE TABLE t1 ({X} int, b int, FOREIGN KEY ({X}) REFERENCES o (id));", lambda r: [c for c in r[0]["columns"] if c["references"]][0]["name"]),
          ("referenced_column", "CREATE TABLE t1 (a int REFERENCES o ({X}), b int);", lambda r: r[0]["columns"][0]["references"]["column"]),
          ("column_first", "CREATE TABLE t1 ({X} int, b int);", _col(0)),
          ("column_after_comma", "CREATE TABLE t1 (a int, {X} int);", _col(1)),
          ("column_between_options", "CREATE TABLE t1 (a int NOT NULL DEFAULT 5, {X} varchar(10) NOT NULL, c int);", _col(1)),
          # one column per line: the keyword-shaped name is the first word of its line (the line filter must not take it for a statement)
          ("column_line_start_kw", "CREATE TABLE t1 (\n    a int,\n    {X} varchar(10) NOT NULL,\n    c int\n);", _col(1)),
          ("column_line_start_first_kw", "CREATE TABLE t1 (\n{X} int,\nb int DEFAULT 1\n);", _col(0)),
          ("column_line_start_last_kw", "CREATE TABLE s1.t1\n(\n  a int\n, {X} int\n);", _col(1))]


# keyword-shaped column names in ALTER TABLE statements: about half of the keywords are typed as keywords there (the name-position
# guards of the lexer cover column lists of CREATE TABLE only) - recorded deviation KF-C06-alter-keyword-column, tag kw_in_alter
KW_POS_ALTER = [("alter_drop_column", "CREATE TABLE t1 (a int, {X} int);\nALTER TABLE t1 DROP COLUMN {X};", lambda r: ([c["name"] for c in r[0]["columns"]] == ["a"]) and "{X}"),
                ("alter_add_column", "CREATE TABLE t1 (a int);\nALTER TABLE t1 ADD {X} int;", lambda r: r[0]["columns"][1]["name"]),
                ("alter_rename_to", "CREATE TABLE t1 (a int);\nALTER TABLE t1 RENAME COLUMN a TO {X};", lambda r: r[0]["columns"][0]["name"]),
                ("alter_unique_list", "CREATE TABLE t1 (a int, {X} int);\nALTER TABLE t1 ADD UNIQUE ({X});", lambda r: r[0]["alter"]["uniques"][0]["columns"][0])]


# keyword-shaped schema / table / constraint names of an ALTER TABLE statement: every keyword, both letter cases.  The nine words below are
# typed as keywords there by the pinned tree (the same recorded deviation as keyword-shaped COLUMN names in ALTER: KF-C06-alter-keyword-column)
KW_POS_ALTER_NAMES = [
    ("alter_schema_kw", "CREATE TABLE {X}.t1 (a int, b int);\nALTER TABLE {X}.t1 ADD UNIQUE (a);", lambda r: (r[0]["schema"], r[0]["alter"]["uniques"][0])[0]),
    ("alter_table_kw", "CREATE TABLE s1.{X} (a int, b int);\nALTER TABLE s1.{X} ADD UNIQUE (a);", lambda r: (r[0]["table_name"], r[0]["alter"]["uniques"][0])[0]),
    ("alter_table_noschema_kw", "CREATE TABLE {X} (a int, b int);\nALTER TABLE {X} ADD UNIQUE (a);", lambda r: (r[0]["table_name"], r[0]["alter"]["uniques"][0])[0]),
    ("alter_constraint_kw", "CREATE TABLE t1 (a int, b int);\nALTER TABLE t1 ADD CONSTRAINT {X} UNIQUE (a);", lambda r: r[0]["alter"]["uniques"][0]["constraint_name"])]
ALTER_NAME_DEV = {"AUTOINCREMENT", "AUTO_INCREMENT", "COLLATE", "COLUMN", "IF", "KEY", "MODIFY", "PRIMARY", "RENAME"}


def strip_all(x):
    """what normalize_names=True must turn a normalize_names=False result into"""
    if isinstance(x, dict):
        return {k: strip_all(v) for k, v in x.items()}
    if isinstance(x, list):
        return [strip_all(v) for v in x]
    return strip1(x)


def templates(tb):
    reps, cls, allw = L.signature_classes(tb)
    W = lambda v: L.word(v, tb)  # noqa
    kw = lambda v: [W(v)]  # noqa
    ids = [W("plain_id"), W('"Quoted"'), W("`bt`"), W("[br]"), W("UPPER_ID")]
    names = [W(x) for x in reps if x not in F.OPENERS and x != "IF"] + ids
    low = [W(x.lower()) for x in reps if x not in F.OPENERS and x != "IF"][:12]
    t_table = [("kw", kw("CREATE")), ("kw", kw("TABLE")), ("name", ids), ("dot", kw(".")), ("name", ids[:2]), ("lp", kw("(")), ("name", names + low), ("type", kw("int")),
               ("comma", kw(",")), ("name", names), ("type", kw("varchar")), ("kw", kw("NOT")), ("kw", kw("NULL")), ("rp", kw(")"))]
    t_cons = [("kw", kw("CREATE")), ("kw", kw("TABLE")), ("name", ids[:1]), ("lp", kw("(")), ("name", ids[:2]), ("type", kw("int")), ("comma", kw(",")),
              ("kw", kw("CONSTRAINT")), ("name", names), ("kw", kw("PRIMARY")), ("kw", kw("KEY")), ("lp", kw("(")), ("name", names), ("comma", kw(",")), ("name", names[:8] + ids),
              ("rp", kw(")")), ("rp", kw(")"))]
    t_ref = [("kw", kw("CREATE")), ("kw", kw("TABLE")), ("name", ids[:1]), ("lp", kw("(")), ("name", ids[:1]), ("type", kw("int")), ("kw", kw("REFERENCES")),
             ("name", ids), ("lp", kw("(")), ("name", names), ("rp", kw(")")), ("comma", kw(",")), ("name", names[:10]), ("type", kw("int")), ("rp", kw(")"))]
    t_alter = [("kw", kw("ALTER")), ("kw", kw("TABLE")), ("name", ids), ("kw", kw("ADD")), ("kw", kw("UNIQUE")), ("lp", kw("(")), ("name", ids), ("rp", kw(")"))]
    t_index = [("kw", kw("CREATE")), ("kw", kw("INDEX")), ("name", ids), ("kw", kw("ON")), ("name", ids), ("lp", kw("(")), ("name", ids), ("rp", kw(")"))]
    t_seq = [("kw", kw("CREATE")), ("kw", kw("SEQUENCE")), ("name", ids), ("kw", kw("START")), ("val", kw("5"))]
    t_like = [("kw", kw("CREATE")), ("kw", kw("TABLE")), ("name", ids), ("kw", kw("LIKE")), ("name", ids)]
    t_check = [("kw", kw("CREATE")), ("kw", kw("TABLE")), ("name", ids[:1]), ("lp", kw("(")), ("name", names), ("type", kw("int")), ("kw", kw("CHECK")), ("lp", kw("(")),
               ("name", ids), ("id", kw(">")), ("val", kw("0")), ("rp", kw(")")), ("comma", kw(",")), ("name", names[:12] + ids), ("type", kw("int")), ("rp", kw(")"))]
    t_alter_cols = [("kw", kw("ALTER")), ("kw", kw("TABLE")), ("name", ids), ("kw", kw("RENAME")), ("kw", kw("COLUMN")), ("name", ids), ("kw", kw("TO")), ("name", ids)]
    return {"like": t_like, "check": t_check, "alter_rename": t_alter_cols, "table": t_table, "constraint": t_cons, "reference": t_ref, "alter": t_alter, "index": t_index, "sequence": t_seq}, reps, allw


def run(tier, seed):
    t0 = time.time()
    V = C.Verdict(PID)
    thorough = tier == "thorough"
    tb = L.tables()
    tps, reps, allw = templates(tb)
    cov = {"model_checked": [], "keyword_signature_classes": len(reps)}
    states = trans = 0
    for name, t in tps.items():
        r = F.mc(F.consts(tb, [t]), "template " + name)
        states += r.distinct
        trans += r.generated
        cov["model_checked"].append({"template": name, "distinct_states": r.distinct})
    r = F.mc(F.consts(tb, [tps["sequence"], tps["alter"], tps["index"]]), "statement sequences (flags reset)", invs=["FreshAtStart", "NameIsID"])
    states += r.distinct
    trans += r.generated
    F.mc(F.consts(tb, [tps["table"]], NameGuard="FALSE"), "name-position guard removed", expect="NameIsID")
    F.mc(F.consts(tb, [tps["table"], tps["alter"]], ResetFlags='AllFlags \\ {"is_alter"}'), "is_alter not reset", expect="FreshAtStart")
    cov["negative_controls"] = ["NameGuard=FALSE refutes NameIsID", "ResetFlags without is_alter refutes FreshAtStart"]
    # ---- drift channel: behaviours through the real lexer -----------------------------------------------------------------
    ndrift = 0
    nlex = 0
    driftex = []
    for name in ("table", "constraint", "reference", "alter", "index", "sequence", "like", "check", "alter_rename"):
        g = F.mc(F.consts(tb, [tps[name]], WithHist="TRUE"), "generation " + name, timeout=1200)
        behs = g.beh
        if not thorough and len(behs) > 4000:
            behs = random.Random(seed).sample(behs, 4000)
        bad = F.drift_count(behs)
        ndrift += len(bad)
        nlex += len(behs)
        driftex += bad[:2]
    cov["model_drift"] = {"behaviours_lexed": nlex, "token_type_or_flag_mismatches": ndrift, "examples": driftex[:4]}
    # ---- verdict channel: names verbatim through the API -------------------------------------------------------------------
    tasks, meta = [], []
    for pid, tpl, ext in POSITIONS:
        for fid, form in FORMS.items():
            if fid == "hash_start" and pid == "column_line_start":
                continue        # a line that starts with `#` is a comment line
            ddl = tpl.replace("{X}", form) + "\n"
            tasks.append((ddl, {}, {}))
            tasks.append((ddl, {"normalize_names": True}, {}))
            meta.append((pid, fid, form, ext, ddl))
    kws = [k for k in T.KEYWORDS if k not in F.OPENERS and k not in ("GO", "USE", "INSERT", "GRANT")] + sorted(set(allw) - set(T.KEYWORDS) - set(F.OPENERS))
    rnd = random.Random(seed)
    for pid, tpl, ext in KW_POS:
        for k in kws:
            if "line_start" in pid and k in ("CREATE", "ALTER", "DROP", "SET", "GO", "USE", "INSERT", "GRANT", "DELETE"):
                continue    # statement-level words at the start of a line: the proviso of C05
            form = k if rnd.random() < 0.5 else k.lower()
            ddl = tpl.replace("{X}", form) + "\n"
            tasks.append((ddl, {}, {}))
            tasks.append((ddl, {"normalize_names": True}, {}))
            meta.append((pid, "keyword", form, ext, ddl))
    # identifiers that merely START with a keyword (ARRAY_IX, Table_x1, index_x1), in every naming position
    for pid, tpl, ext in POSITIONS:
        for k in T.KEYWORDS:
            fs = [k.lower() + "_x1", k.capitalize() + "_x1", k.upper() + "_X1"]
            for form in (fs if thorough or k == "ARRAY" else [rnd.choice(fs)]):
                ddl = tpl.replace("{X}", form) + "\n"
                tasks.append((ddl, {}, {}))
                tasks.append((ddl, {"normalize_names": True}, {}))
                meta.append((pid, "keyword_prefix" + (":array_type_position" if pid == "inline_key_name" and form.startswith("ARRAY") else ""), form, ext, ddl))
    for pid, tpl, ext in KW_POS_ALTER_NAMES:
        for k in T.KEYWORDS:
            for form in ((k, k.lower()) if thorough or k in ("ADD", "DROP", "DEFAULT", "LIKE", "CONSTRAINT", "FOREIGN", "INDEX", "UNIQUE", "CHECK", "WITH", "CLUSTER", "BY")
                         else (rnd.choice((k, k.lower())),)):
                ddl = tpl.replace("{X}", form) + "\n"
                tasks.append((ddl, {}, {}))
                tasks.append((ddl, {"normalize_names": True}, {}))
                meta.append((pid, "keyword_in_alter" if k in ALTER_NAME_DEV else "keyword", form, ext, ddl))
    for pid, tpl, ext in KW_POS_ALTER:
        for k in kws:
            form = k.lower()
            ddl = tpl.replace("{X}", form) + "\n"
            tasks.append((ddl, {}, {}))
            tasks.append((ddl, {"normalize_names": True}, {}))
            meta.append((pid, "keyword_in_alter", form, (lambda r, e=ext, f=form: (e(r) if e(r) != "{X}" else f)), ddl))
    outs, nu = C.parse_many(tasks)
    for i, (pid, fid, form, ext, ddl) in enumerate(meta):
        tags = {"kw_in_alter"} if fid == "keyword_in_alter" else ({"array_prefix_type_position"} if fid.endswith(":array_type_position") else set())
        of, on = outs[2 * i], outs[2 * i + 1]
        case = {"position": pid, "form": fid, "identifier": form, "ddl": ddl}
        if of[0] != "ok":
            V.mismatch(dict(case, problem="raised", error=of[1:3]), tags=tags, paths=["raised"])
            continue
        try:
            got = ext(of[1])
        except Exception as e:  # noqa
            V.mismatch(dict(case, problem="name not reported at its position (" + type(e).__name__ + ")", result=of[1]), tags=tags, paths=["missing"])
            continue
        if got != form:
            V.mismatch(dict(case, problem="name not verbatim", reported=got), tags=tags, paths=["verbatim"])
            continue
        if on[0] != "ok":
            V.mismatch(dict(case, problem="normalize_names=True raised", error=on[1:3]), paths=["raised_normalized"])
            continue
        want = strip_all(of[1])
        if on[1] != want:
            V.mismatch(dict(case, problem="normalize_names=True is not the plain result with one delimiter pair stripped from each identifier",
                            paths=C.diff_paths(want, on[1])[:6]), paths=["normalized"])
    # ---- normalize_names given through parse_from_file(parser_settings=..) is the same setting -------------------------------------------
    ftxt = 'CREATE TABLE "S 1"."My Tab" ("Id" int, `note` varchar(5), [flag] int, plain int, PRIMARY KEY ("Id"));\nCREATE INDEX "Ix 1" ON "S 1"."My Tab" (`note`);\n'
    fres = C.pool().map(_file_with_settings, [(ftxt, {"normalize_names": True}), (ftxt, {"normalize_names": False}), (ftxt, {"normalize_names": True, "silent": False})], 1)
    for (st, (a, f)) in zip(("True", "False", "True+silent=False"), fres):
        if a != f:
            V.mismatch({"position": "file entry point", "form": "delimited", "identifier": "normalize_names=" + st, "ddl": ftxt,
                        "problem": "parse_from_file(parser_settings=..) differs from DDLParser(text, **settings).run()", "api": a, "file": f}, paths=["file_settings"])
    rc = V.finish()
    cov["known_findings_met"] = V.hits
    cov.update({"states": states, "transitions": trans, "traces_validated_against_impl": nlex + len(meta),
                "api_cases": {"positions": len(POSITIONS), "forms": len(FORMS), "keywords_as_column_names": len(kws), "keyword_positions": len(KW_POS), "keyword_positions_in_alter (recorded deviation)": len(KW_POS_ALTER)},
                "samples": [{"position": meta[10][0], "identifier": meta[10][2], "ddl": meta[10][4]}], "exhaustive": True})
    C.write_evidence(PID, tier, seed, cov, time.time() - t0, len(V.viol),
                     ["keyword tables are read from the working tree's tokens.py (a keyword moved between tables changes a constant and is judged by NameIsID)",
                      "identifier content is one representative per form", "TLC, PLY, CPython trusted"])
    return rc


def replay(path):
    return C.generic_replay(path)
