"""C02 Keys, uniqueness, checks and foreign keys land on the right columns.

Decided by spec/TableFold.tla: PKExact, UniqueFlags,
ConstraintsExact, RefsOnce, ChecksOnce are model-checked over every table of <= 3 columns with <= 2 table-level items
of the 8 forms (PRIMARY KEY / UNIQUE / CHECK / FOREIGN KEY, named or not, 1..3 columns, any position among the columns)
combined with inline PRIMARY KEY / UNIQUE / REFERENCES, including the separate __post_init__ step, and must be refuted on
defective folds.  Complete behaviours are rendered and parsed by the real library; primary key, non-nullability of key
columns, unique flags, named constraints, checks and references must equal the contract observable TLC computed.
Deviations of the shipped code that TLC itself reaches (Dev tags) are reported as KNOWN-FINDING when listed.
"""
import time

from .. import common as C
from .. import tablefold as T
from .. import tf_check as F

PID = "C02"


def keep(p):
    pk = set(p["pk"])
    return {"pk": p["pk"], "pk_nullable": [c["nullable"] for c in p["cols"] if c["n"] in pk],
            "uq": [[c["n"], c["uq"]] for c in p["cols"]], "named": p["named"], "multi": p["multi"], "checks": p["checks"],
            "col_checks": [[c["n"], c["ck"]] for c in p["cols"]], "refs": p["refs"]}


INLINE = [("pk", "pk"), ("unique", "u"), ("ref", "r1")]


def run(tier, seed):
    t0 = time.time()
    V = C.Verdict(PID)
    thorough = tier == "thorough"
    cov = {"model_checked": [], "generation": []}
    states = trans = 0
    mcs = [("<=2 items of 8 forms x 6 column lists, inline pk/unique/ref", F.consts(TypeForms="{}", Opts=F.optset(*INLINE), MaxOpts=1, ItemKinds=F.ALLITEMS,
                                                                                   ItemCols=F.IC6, MaxItems=2, Refs='{"r1","r2"}'))]
    if thorough:
        mcs += [("<=3 items, 4 column lists", F.consts(TypeForms="{}", Opts=F.optset(*INLINE), MaxOpts=1, ItemKinds=F.ALLITEMS, ItemCols=F.IC4,
                                                       MaxItems=3, Refs='{"r1"}'))]
    for what, cs in mcs:
        r = F.mc(cs, what, timeout=1800)
        states += r.distinct
        trans += r.generated
        cov["model_checked"].append({"config": what, "distinct_states": r.distinct, "wall_s": round(r.wall, 1)})
    F.mc(F.consts(Variant='"pk_keeps_nullable"', MaxOpts=2), "PRIMARY KEY leaves the column nullable", expect="PKExact")
    F.mc(F.consts(Variant='"unique_needs_fresh"', MaxOpts=2), "UNIQUE after PRIMARY KEY not flagged", expect="UniqueFlags")
    F.mc(F.consts(TypeForms="{}", Opts="{}", MaxOpts=0, ItemKinds='{"uniq"}', ItemCols='{<<"a">>, <<"b">>}', MaxItems=2, Variant='"uniq_not_deferred"'),
         "UNIQUE (c) before c is declared", expect="UniqueFlags")
    cov["negative_controls"] = ["Variant=uniq_not_deferred refutes UniqueFlags", "Variant=pk_keeps_nullable refutes PKExact", "Variant=unique_needs_fresh refutes UniqueFlags"]

    allrefs = "{" + ", ".join(f'"{r}"' for r in T.REFS) + "}"
    gens = [("items", F.consts(WithHist="TRUE", TypeForms="{}", Opts=F.optset(*INLINE), MaxOpts=1, ItemKinds=F.ALLITEMS,
                               ItemCols=F.IC4 if not thorough else F.IC6, MaxItems=1 if not thorough else 2, Refs='{"r1"}')),
            ("item pairs", F.consts(WithHist="TRUE", TypeForms="{}", Opts="{}", MaxOpts=0, MaxCols=2, ItemKinds=F.ALLITEMS,
                                    ItemCols='{<<"a">>, <<"b">>, <<"a","b">>}', MaxItems=2, Refs='{"r2"}')),
            ("referential actions", F.consts(WithHist="TRUE", TypeForms="{}", MaxCols=2, Opts=F.optset(*[("ref", r) for r in T.REFS] + [("null", "notnull")]),
                                             MaxOpts=2, ItemKinds='{"fk","cfk"}', ItemCols='{<<"a">>, <<"a","b">>}', MaxItems=1, Refs=allrefs)),
            ("inline checks", F.consts(WithHist="TRUE", TypeForms="{}", Opts=F.optset(("check", "c1"), ("null", "notnull"), ("default", "d1"), ("unique", "u")),
                                       MaxOpts=3, ItemKinds='{"check","ccheck"}', MaxItems=1)),
            ("check forms", F.consts(WithHist="TRUE", TypeForms="{}", MaxCols=2, Opts=F.optset(("check", "c1"), ("check", "c2"), ("null", "notnull")), MaxOpts=2,
                                     ItemKinds='{"check","ccheck"}', CheckIds='{"e1","e3","e4","e5","e6","e7"}', MaxItems=2))]
    seeds = [seed * 5 + i for i in range(2 if not thorough else 5)]
    total = uniq = 0
    sample = None
    for what, cs in gens:
        g = F.mc(cs, "generation " + what, timeout=1800)
        print(f"  gen {what}: {len(g.beh)} behaviours, TLC {g.wall:.1f}s", flush=True)
        n, nu, nbad = F.compare(V, g.beh, seeds, what, keep, layouts=("oneline", "multiline"))
        total += n
        uniq += nu
        # the same contract in every other output mode (a dialect class must not change keys, nullability, flags or columns): each mode a slice
        from .. import clauses as KM
        import random as _r
        msub = g.beh if len(g.beh) <= 560 else _r.Random(seed).sample(g.beh, 560)
        others = [m for m in KM.MODES if m != "sql"]
        for mi, m_ in enumerate(others):
            n2, nu2, _ = F.compare(V, msub[mi::len(others)], seeds[:1], f"{what} / {m_}", keep, run={"output_mode": m_}, layouts=("oneline", "multiline"))
            total += n2
            uniq += nu2
        tags = {}
        for b in g.beh:
            for tg in F.spec_tags(b):
                tags[tg] = tags.get(tg, 0) + 1
        cov["generation"].append({"config": what, "behaviours": len(g.beh), "renderings": n, "mismatches": nbad, "spec_dev_tags": tags})
        if sample is None and g.beh:
            b = g.beh[len(g.beh) // 2]
            sample = {"abstract": F.abstract(b), "ddl": T.render(b["hist"], seeds[0]), "expected": keep(T.expected(b["obs"], b["open"]))}
    if thorough:
        g = F.mc(F.consts(WithHist="TRUE", MaxCols=4, FocusAt=2, TypeForms='{"vc"}', Opts=F.optset(*(INLINE + [("ref", "r2"), ("check", "c1"), ("null", "notnull")])), MaxOpts=3,
                          ItemKinds=F.ALLITEMS, ItemCols=F.IC6, MaxItems=4, Refs='{"r1","r2","r4"}', CheckIds='{"e1","e3","e5","e6"}'),
                 "simulation: 4 columns, <=4 items, <=3 inline options", timeout=3000, simulate="num=30000", depth=16, seed=seed + 3)
        ub = list({repr(b["hist"]): b for b in g.beh}.values())
        n, nu, nbad = F.compare(V, ub, seeds[:2], "simulation", keep, layouts=("oneline", "multiline"))
        total += n
        uniq += nu
        cov["generation"].append({"config": "simulation (4 columns, <=4 items)", "behaviours": len(ub), "renderings": n, "mismatches": nbad})
    rc = V.finish()
    cov.update({"states": states, "transitions": trans, "traces_validated_against_impl": total, "distinct_real_parses": uniq,
                "seeds": seeds, "samples": [sample], "exhaustive": True, "known_findings_met": V.hits})
    C.write_evidence(PID, tier, seed, cov, time.time() - t0, len(V.viol),
                     ["the unique flag of the sole column of a NAMED single-column UNIQUE constraint is not judged (left open by the property)",
                      "a named FOREIGN KEY constraint may be reported under constraints.references (with the column name) instead of on the column",
                      "reference / check forms are pool entries (harness/tablefold.py)", "TLC, PLY, CPython trusted"])
    return rc


def replay(path):
    return F.replay_file(path, keep)
