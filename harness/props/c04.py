"""C04 ALTER TABLE / CREATE INDEX change exactly the table they name, as declared.

Decided by spec/Registry.tla: OnlyTarget, HitsTarget, UnknownRaises, OrderKept, EffectOnColumns, Recorded,
FlagsOnNamedColumn are model-checked by TLC on the contract configuration (Routing = "id", AddLoop = "new") and must be
refuted on the defective mechanisms kept as negative controls (registry keyed by name only / by spelling; every column
ever added re-appended).  Every state of the generation configurations (= every script prefix) is rendered to DDL with
seeded identifier spellings and parsed by the real library; the projected result must equal the state TLC computed.
The library's own `Apply` events (one per statement result, guard on) from corpus scripts with ALTER / CREATE INDEX are
validated against TraceRegistry.tla.
"""
import json
import random
import time

from .. import common as C
from .. import registry as R

PID = "C04"
U4 = '{<<"s1","t">>, <<"s2","t">>, <<"","t">>, <<"s1","u">>}'
U2 = '{<<"s1","t">>, <<"s2","t">>}'
U1 = '{<<"s1","t">>}'
ALLK = '{"addcol","drop","rename","modify","unique","pk","default","check","fk","index"}'
SS = '{<<"same","same">>}'
S2 = '{<<"same","same">>, <<"other","other">>}'
S4 = '{<<"same","same">>, <<"other","other">>, <<"same","other">>, <<"other","same">>}'
INV = ["TypeOK", "UnknownRaises", "GroupLossless", "BucketRuleAgrees"]
PROPS = ["OnlyTarget", "HitsTarget", "OrderKept", "EffectOnColumns", "Recorded", "FlagsOnNamedColumn"]


def consts(**kw):
    d = dict(Universe=U4, MaxCreates=2, MaxStmts=3, Kinds=ALLK, Spells=S2, ColSpells='{"same"}', CNames='{""}',
             NewCols='{"d","e"}', Others="{}", Routing='"id"', AddLoop='"new"', DupCreates="FALSE", Lean="FALSE", WithHist="FALSE")
    d.update(kw)
    return d


def mc(cs, what, expect=None, timeout=600, simulate=None, depth=None, seed=None):
    hist = cs["WithHist"] == "TRUE"
    invs, props = INV + (["Emit"] if hist else []), PROPS
    if expect:  # negative control: only the property that must be refuted
        invs, props = ([expect], []) if expect in INV else ([], [expect])
    r = C.run_tlc_wrapped("Registry", cs, dict(spec="Spec", invariants=invs, properties=props, view=None if hist else "View"),
                          workers=1 if hist else C.NCPU, timeout=timeout, simulate=simulate, depth=depth, seed=seed)
    if expect:
        if expect not in r.violated:
            raise C.MachineryError(f"negative control {what}: TLC no longer refutes {expect} (violated={r.violated})\n{r.tail[-600:]}")
    else:
        C.require_tlc_ok(r, what)
    return r


def stratified(behs, rnd, n):
    """a sample of n behaviours that keeps (a) every behaviour in which a later statement names a column an earlier one introduced (renamed to /
    added), (b) one behaviour per sequence of statement kinds, and fills the rest at random - so that the sample does not lose the state-dependent
    sequences when the generator grows"""
    if len(behs) <= n:
        return list(behs)
    def dependent(b):
        new = set()
        for s_ in b["hist"]:
            named = {(c_[0] if isinstance(c_[0], str) else c_[0][0]) for c_ in (s_.get("cs") or []) if isinstance(c_, (list, tuple)) and c_} | \
                    ({s_["c"][0]} if s_.get("c") else set())
            if named & new:
                return True
            if s_["k"] == "rename":
                new.add(s_["x"])
            elif s_["k"] == "addcol" and s_.get("c"):
                new.add(s_["c"][0])
        return False
    keep = [b for b in behs if dependent(b)]
    seen = {tuple(s_["k"] for s_ in b["hist"]) for b in keep}
    for b in behs:
        k = tuple(s_["k"] for s_ in b["hist"])
        if k not in seen:
            seen.add(k)
            keep.append(b)
    rest = [b for b in behs if b not in keep]
    if len(keep) < n:
        keep += rnd.sample(rest, min(len(rest), n - len(keep)))
    return keep


def compare(V, behs, seeds, what, ctor=None, run=None, tags_of=None):
    """render every behaviour under every seed, parse, project, compare with TLC's state"""
    tasks, meta = [], []
    for b in behs:
        for sd in seeds:
            text, sp = R.render(b["hist"], sd)
            tasks.append((text, ctor or {}, run or {}))
            meta.append((b, sp, sd))
    outs, nuniq = C.parse_many(tasks)
    nbad = 0
    for (b, sp, sd), tk, o in zip(meta, tasks, outs):
        exp = R.expected(b, sp)
        got = R.project(o)
        if exp["err"]:
            paths = [] if got["err"] else ["err"]
        elif got["err"]:
            paths = ["err"]
        else:
            paths = C.diff_paths(exp["ents"], got["ents"], "ents")
        if paths:
            nbad += 1
            V.mismatch({"what": what, "ddl": tk[0], "ctor": tk[1], "run": tk[2], "seed": sd,
                        "abstract": [f"{s['k']}({'.'.join(s['t'])})" for s in b["hist"]],
                        "paths": paths[:8], "expected": exp, "observed": got},
                       tags=tags_of(b) if tags_of else (), paths=paths)
    return len(tasks), nuniq, nbad


def run(tier, seed):
    t0 = time.time()
    import os
    os.environ[C.GUARD] = "1"        # before any worker imports the library: the Apply events are recorded in step 3
    rnd = random.Random(seed)
    V = C.Verdict(PID)
    cov = {}
    states = trans = 0
    thorough = tier == "thorough"

    # ---- 1. exhaustive model checking of the contract -----------------------------------------------------------
    mcs = [("4 tables, 3 stmts, 2x2 spellings", consts(Spells=S4)),
           ("2 tables, 4 stmts, 7 kinds", consts(Universe=U2, MaxStmts=4, Spells=SS, Kinds='{"addcol","drop","rename","modify","unique","fk","index"}')
            if not thorough else consts(Universe=U2, MaxStmts=4, Spells=SS)),
           ("1 table, 4 stmts, column spellings, named constraints", consts(Universe=U1, MaxCreates=1, MaxStmts=4, Spells=SS,
                                                                           ColSpells='{"same","other"}', CNames='{"","k1"}'))]
    if thorough:
        mcs += [("duplicate creates", consts(Universe=U2, MaxCreates=3, MaxStmts=4, Spells=SS, DupCreates="TRUE",
                                             Kinds='{"addcol","drop","unique","index","fk"}')),
                ("1 table, 5 stmts", consts(Universe=U1, MaxCreates=1, MaxStmts=5, Spells=SS,
                                            Kinds='{"addcol","drop","rename","modify","unique","default","fk"}'))]
    cov["model_checked"] = []
    for what, cs in mcs:
        r = mc(cs, what, timeout=1500)
        print(f"  mc {what}: {r.distinct} states, TLC {r.wall:.1f}s", flush=True)
        states += r.distinct
        trans += r.generated
        cov["model_checked"].append({"config": what, "distinct_states": r.distinct, "wall_s": round(r.wall, 1)})
    # ---- negative controls ------------------------------------------------------------------------------------------
    mc(consts(Routing='"name_only"'), "registry keyed by table name only", expect="OnlyTarget")
    mc(consts(Routing='"spelling"'), "registry keyed by spelling", expect="UnknownRaises")
    mc(consts(Universe=U1, MaxCreates=1, MaxStmts=4, Spells=SS, AddLoop='"all"'), "re-append loop", expect="EffectOnColumns")
    cov["negative_controls"] = ["Routing=name_only refutes OnlyTarget", "Routing=spelling refutes UnknownRaises",
                                "AddLoop=all refutes EffectOnColumns"]

    # ---- 2. generation + replay ----------------------------------------------------------------------------------------
    gens = [("routing", consts(WithHist="TRUE", Spells=S4 if thorough else S2, Lean="TRUE", Kinds='{"drop","unique","index"}')),
            ("effects", consts(WithHist="TRUE", Universe=U1, MaxCreates=1, MaxStmts=3, Spells=SS, ColSpells='{"same","other"}',
                               CNames='{"","k1"}')),
            ("effects next to a LIKE table", consts(WithHist="TRUE", Universe=U1, MaxCreates=1, MaxStmts=3, Spells=SS, CNames='{""}', Others='{"liketable"}',
                                                    Kinds='{"rename","unique","default","addcol","drop"}')),
            ("sequences", consts(WithHist="TRUE", Universe=U1, MaxCreates=1, MaxStmts=4, Spells=SS,
                                 Kinds='{"addcol","drop","rename","modify"}'))]
    if thorough:
        gens += [("effects4", consts(WithHist="TRUE", Universe=U1, MaxCreates=1, MaxStmts=4, Spells=SS,
                                     Kinds='{"addcol","drop","rename","modify","unique","default","fk","index"}')),
                 ("routing-all-kinds", consts(WithHist="TRUE", Spells=S2, Lean="TRUE")),
                 ("dup", consts(WithHist="TRUE", Universe=U2, MaxCreates=3, MaxStmts=4, Spells=SS, DupCreates="TRUE",
                                Kinds='{"addcol","drop","unique","index"}'))]
    sims = []
    if thorough:
        sims = [("simulation: <=7 statements, 4 tables, all kinds, 2x2 spellings",
                 consts(WithHist="TRUE", MaxCreates=3, MaxStmts=7, Spells=S4, ColSpells='{"same","other"}', CNames='{"","k1"}'), "num=500", 12)]
    seeds = [seed * 7 + i for i in range(2 if not thorough else 5)]
    cov["generation"] = []
    total = uniq = 0
    sample = None
    last_routing = []
    for what, cs in gens:
        g = mc(cs, "generation " + what, timeout=1500)
        print(f"  gen {what}: {len(g.beh)} behaviours, TLC {g.wall:.1f}s", flush=True)
        n, nu, nbad = compare(V, g.beh, seeds, what)
        total += n
        uniq += nu
        cov["generation"].append({"config": what, "behaviours": len(g.beh), "renderings": n, "distinct_parses": nu, "mismatches": nbad})
        if g.beh and sample is None:
            b = g.beh[len(g.beh) // 2]
            sample = {"abstract": b["hist"], "ddl": R.render(b["hist"], seeds[0])[0], "expected": R.expected(b, R.render(b["hist"], seeds[0])[1])}
        # modes: the routing must not depend on the output mode (bigquery renames schema -> dataset)
        if what in ("routing", "effects"):
            last_routing = last_routing + g.beh
        if what in ("routing", "effects"):     # (effects: every ALTER kind incl. composite foreign keys to a qualified table)
            sub = g.beh if thorough else rnd.sample(g.beh, min(len(g.beh), 1500))
            for m in ("bigquery", "mssql", "hql"):
                n2, nu2, _ = compare(V, sub, seeds[:1], f"{what}/{m}", run={"output_mode": m})
                total += n2
                uniq += nu2
        if what in ("effects", "sequences"):
            # every other output mode gets a slice of the ALTER effects / ALTER sequences (a dialect class that re-binds its column list after
            # the first ALTER would make later ALTERs invisible in that mode only)
            from .. import clauses as KM
            others = [m_ for m_ in KM.MODES if m_ not in ("sql", "bigquery", "mssql", "hql")]
            pool_ = g.beh if thorough else rnd.sample(g.beh, min(len(g.beh), 1300))
            for mi, m_ in enumerate(others):
                n2, nu2, _ = compare(V, pool_[mi::len(others)], seeds[:1], f"{what}/{m_}", run={"output_mode": m_})
                total += n2
                uniq += nu2

    for what, cs, num, depth in sims:
        g = mc(cs, what, timeout=3000, simulate=num, depth=depth, seed=seed + 5)
        uniq_b = sorted({json.dumps(b["hist"]): b for b in g.beh}.values(), key=lambda b: -len(b["hist"]))[:40000]   # TLC prints every successor it generates
        n, nu, nbad = compare(V, uniq_b, seeds[:2], what)
        total += n
        uniq += nu
        cov["generation"].append({"config": what, "behaviours": len(uniq_b), "renderings": n, "mismatches": nbad})
    # ---- 3. code -> spec: the library's own `Apply` events (one per statement result) validated by TLC against TraceRegistry.tla --------
    import os
    os.environ[C.GUARD] = "1"
    from .. import corpus as CP
    from .. import trace_reg as TR
    corp = CP.harvest()
    scripts = [(r["text"], r["ctor"], {}) for r in corp]
    gsel = [b for b in last_routing if b["hist"]]
    gsel = gsel if thorough else rnd.sample(gsel, min(len(gsel), 1200))
    scripts += [(R.render(b["hist"], seeds[0])[0], {}, {"output_mode": m}) for i, b in enumerate(gsel) for m in (("sql",) if i % 4 else ("bigquery",))]
    traces = TR.record(scripts)
    if not any(traces):
        # the guarded hooks are not in this tree (or were refactored away): nothing recorded, nothing to validate - not a verdict
        cov["apply_traces"] = {"scripts": len(scripts), "events": 0, "note": "no Apply events recorded: hooks absent, trace validation skipped"}
        traces = []
    nacc, rej, rt = TR.validate(traces) if traces else (0, [], None)
    for i, line in rej:
        V.mismatch({"what": "recorded execution rejected by spec/TraceRegistry.tla (OnlyTarget / OrderKept on the library's Apply events)",
                    "ddl": scripts[i][0][:1200], "run": scripts[i][2], "event": traces[i][line - 1] if line else None,
                    "previous": traces[i][line - 2] if line and line > 1 else None}, paths=["trace"])
    import copy
    withalter = [t for t in traces if any(e["kind"] == "alter" for e in t)]
    if withalter:
        bad = copy.deepcopy(withalter[0])
        j = next(k for k, e in enumerate(bad) if e["kind"] == "alter")
        bad[j]["n"] += 1
        if not TR.validate([bad])[1]:
            raise C.MachineryError("trace validation accepted a corrupted Apply trace: the binding is vacuous")
    states += rt.distinct if rt else 0
    trans += rt.generated if rt else 0
    total += nacc
    if traces:
        cov["apply_traces"] = {"scripts": len(scripts), "events": sum(len(t) for t in traces), "accepted": nacc, "rejected": len(rej), "corrupted_trace_rejected": True}
    rc = V.finish()
    cov.update({"states": states, "transitions": trans, "traces_validated_against_impl": total,
                "distinct_real_parses": uniq, "seeds": seeds, "samples": [sample], "exhaustive": True})
    C.write_evidence(PID, tier, seed, cov, time.time() - t0, len(V.viol),
                     ["identifier spellings are drawn per rendering from six forms (plain, UPPER, \"q\", \"Q\", [b], `k`)",
                      "column matching for ADD UNIQUE / DEFAULT FOR is only judged for the declared spelling (the property pins "
                      "spelling-insensitivity for the table)", "TLC, PLY, CPython trusted"])
    return rc


def replay(path):
    d = json.load(open(path))
    bad = 0
    for v in d["violations"]:
        o = C._do_parse((v["ddl"], v.get("ctor", {}), v.get("run", {})))
        got = R.project(C.jnorm(o))
        exp = v["expected"]
        same = (got["err"] == exp["err"]) and (exp["err"] or got["ents"] == exp["ents"])
        print(("STILL-FAILS " if not same else "passes now ") + v["ddl"].replace("\n", " | ")[:200])
        bad += not same
    return 1 if bad else 0
