"""C09 Parameterised and nested column types stay whole and leave neighbours intact.

Decided by spec/Lexer.tla: DepthTracked (the `<` counter equals the true nesting depth), CommaInAngle (commas inside angle
brackets are typed COMMAT, the others COMMA), TypeClosed (a type leaves depth 0) and TypeStartsLT (an angle-bracket type
starts with an LT token) are model-checked on one statement template per type spelling of the recursive type grammar
(ARRAY<T>, MAP<K,V>, STRUCT<f:T,...> nested to depth 3, three comma spacings, both field syntaxes), and TypeStartsLT must be
refuted exactly on the spellings whose first token already contains `>` (the recorded deviation).  Replay: (drift) every
template through the real lexer; (verdict) every spelling, and the size / array-suffix / two-word forms, placed at column
position 1..3 with each following option, parsed by the real library: one type string equal to the spelling up to white
space, balanced brackets, the size where given, the following options kept, both neighbours intact.
"""
import itertools
import json
import random
import re
import time

from .. import common as C
from .. import lexer as L
from .. import lex_check as F

PID = "C09"
BASE = ["STRING", "INT"]


def gen_types(depth, width=4):
    """abstract type trees"""
    if depth == 0:
        return [("b", b) for b in BASE]
    sub = gen_types(depth - 1, width)
    nb = [t for t in sub if t[0] != "b"]
    small = (sub[:2] + nb[:width]) if depth > 1 else sub
    out = list(gen_types(0))
    for t in small:
        out.append(("ARRAY", t))
    for k, v in itertools.product(gen_types(0)[:1], small):
        out.append(("MAP", k, v))
    for t in small:
        out.append(("STRUCT", (("f1", t),)))
    for t1, t2 in itertools.product(small[:2], gen_types(0)[:1]):
        out.append(("STRUCT", (("f1", t1), ("f2", t2))))
    seen, uniq = set(), []
    for t in out:
        if t not in seen:
            seen.add(t)
            uniq.append(t)
    return uniq


def spell(t, comma, colon):
    k = t[0]
    if k == "b":
        return t[1]
    if k == "ARRAY":
        return "ARRAY<" + spell(t[1], comma, colon) + ">"
    if k == "MAP":
        return "MAP<" + spell(t[1], comma, colon) + comma + spell(t[2], comma, colon) + ">"
    if k == "STRUCT":
        return "STRUCT<" + comma.join(n + colon + spell(x, comma, colon) for n, x in t[1]) + ">"
    raise ValueError(k)


def depth_of(t):
    if t[0] == "b":
        return 0
    if t[0] == "ARRAY":
        return 1 + depth_of(t[1])
    if t[0] == "MAP":
        return 1 + max(depth_of(t[1]), depth_of(t[2]))
    return 1 + max(depth_of(x) for _, x in t[1])


def tokens_of(text):
    """the lexer's words: white-space separated chunks after commas and parentheses were spaced out by the pre-processor"""
    return re.sub(r"([,()])", r" \1 ", text).split()


OTHER_FORMS = [  # (ddl, expected type (white space removed), expected size)
    ("varchar(10)", "varchar", 10), ("decimal(10,2)", "decimal", [10, 2]), ("numeric (12, 4)", "numeric", [12, 4]), ("varchar(max)", "varchar", "max"),
    ("varchar2(30 CHAR)", "varchar2", "30 CHAR"), ("number(*,2)", "number", ["*", 2]), ("int[]", "int[]", None), ("varchar(5)[]", "varchar[]", 5),
    ("double precision", "doubleprecision", None), ("character varying(20)", "charactervarying", 20), ("timestamp without time zone", None, None),
    ("text[][]", "text[][]", None), ("timestamp(0)", "timestamp", 0), ("time(0)", "time", 0), ("decimal(0,0)", "decimal", [0, 0]), ("float(0)", "float", 0),
]
# every sized / unsized spelling x every suffix written after it (array brackets, ARRAY, a second type word): type text and size both survive
_SIZED = [("varchar(10)", "varchar", 10), ("decimal(10,2)", "decimal", [10, 2]), ("decimal(10, 2)", "decimal", [10, 2]), ("numeric (12, 4)", "numeric", [12, 4]),
          ("number(*,2)", "number", ["*", 2]), ("int(11)", "int", 11), ("character varying(20)", "charactervarying", 20), ("timestamp(0)", "timestamp", 0),
          ("decimal(0,0)", "decimal", [0, 0]), ("varchar(max)", "varchar", "max"), ("text", "text", None), ("double precision", "doubleprecision", None)]
_SUFFIX = [("[]", "[]"), ("[][]", "[][]"), (" ARRAY", "[]"), (" unsigned", "unsigned")]
OTHER_FORMS += [(b + sf, ty + sfe, sz) for b, ty, sz in _SIZED for sf, sfe in _SUFFIX]
# sizes with a unit word (Oracle / Db2); a suffix after them is not a form the grammar has
OTHER_FORMS += [("varchar(20 OCTETS)", "varchar", "20 OCTETS"), ("varchar(100 CODEUNITS32)", "varchar", "100 CODEUNITS32"), ("clob(1 M)", "clob", "1 M"), ("blob(2 G)", "blob", "2 G"),
                ("varchar2(30 BYTE)", "varchar2", "30 BYTE"), ("nchar(4 char)", "nchar", "4 char")]
OPTS = [("", {}), (" NOT NULL", {"nullable": False}), (" DEFAULT 'x'", {"default": "'x'"}), (" COMMENT 'c c'", {"comment": "'c c'"})]


def balanced(s):
    d = 0
    for ch in s:
        if ch in "<(":
            d += 1
        elif ch in ">)":
            d -= 1
        if d < 0:
            return False
    return d == 0


def run(tier, seed):
    t0 = time.time()
    rnd = random.Random(seed)
    V = C.Verdict(PID)
    thorough = tier == "thorough"
    tb = L.tables()
    W = lambda v: L.word(v, tb)  # noqa
    kw = lambda v: [W(v)]  # noqa
    trees = [t for t in gen_types(4 if thorough else 3, 10 if thorough else 9) if t[0] != "b"]
    spellings = []
    for t in trees:
        for comma in (",", ", ", " , "):
            for colon in (":", " "):
                if colon == " " and "STRUCT" not in str(t):
                    continue
                s = spell(t, comma, colon)
                if s not in [x[0] for x in spellings]:
                    spellings.append((s, t))
    good = [(s, t) for s, t in spellings if ">" not in tokens_of(s)[0]]
    devs = [(s, t) for s, t in spellings if ">" in tokens_of(s)[0]]
    cov = {"type_trees": len(trees), "spellings": len(spellings), "first_token_contains_gt": len(devs), "model_checked": []}

    def template(s, opt_words):
        toks = tokens_of(s)
        slots = [("kw", kw("CREATE")), ("kw", kw("TABLE")), ("name", kw("t1")), ("lp", kw("(")), ("name", kw("c1"))]
        d = 0
        for i, tk in enumerate(toks):
            if tk == ",":
                slots.append(("comma_in_type" if d > 0 else "comma", kw(",")))
            else:
                slots.append(("typestart" if i == 0 and "<" in tk else "type", kw(tk)))
            d += tk.count("<") - tk.count(">")
        for w in opt_words:
            slots.append(("kw", kw(w)))
        slots += [("comma", kw(",")), ("name", kw("c2")), ("type", kw("int")), ("rp", kw(")"))]
        return slots

    states = trans = 0
    batch = [template(s, ["NOT", "NULL"] if i % 2 else []) for i, (s, _) in enumerate(good)]
    for k in range(0, len(batch), 60):
        r = F.mc(F.consts(tb, batch[k:k + 60]), f"type templates {k}..", invs=["DepthTracked", "CommaInAngle", "TypeClosed", "TypeStartsLT", "NameIsID"])
        states += r.distinct
        trans += r.generated
    cov["model_checked"].append({"config": f"{len(batch)} templates whose first type token has no `>`", "distinct_states": states})
    if devs:
        F.mc(F.consts(tb, [template(s, []) for s, _ in devs[:40]]), "first type token contains `>`", expect="TypeStartsLT")
        r = F.mc(F.consts(tb, [template(s, []) for s, _ in devs[:40]]), "first type token contains `>` (other invariants)", invs=["DepthTracked", "CommaInAngle", "TypeClosed"])
        states += r.distinct
        trans += r.generated
    view = [("kw", kw("CREATE")), ("id", kw("VIEW")), ("name", kw("v0")), ("kw", kw("AS")), ("id", kw("SELECT")), ("id", kw("a")), ("id", kw("WHERE")), ("id", kw("a")), ("id", kw(">")), ("id", kw("0"))]
    r = F.mc(F.consts(tb, batch[:6] + [view]), "statement sequences incl. a stray `>` (flags reset)", invs=["FreshAtStart"])
    states += r.distinct
    trans += r.generated
    F.mc(F.consts(tb, batch[:3] + [view], ResetFlags='AllFlags \\ {"lt_open"}'), "lt_open not reset", invs=["FreshAtStart"], expect="FreshAtStart")
    cov["negative_controls"] = ["ResetFlags without lt_open refutes FreshAtStart", "TypeStartsLT is refuted exactly on the spellings whose first token contains `>` (as-built deviation angleRT)"]
    # ---- drift: templates through the real lexer ---------------------------------------------------------------------------------
    g_beh = []
    for k in range(0, len(batch), 60):
        g = F.mc(F.consts(tb, batch[k:k + 60], WithHist="TRUE"), "generation", invs=[])
        g_beh += g.beh
    bad = F.drift_count(g_beh)
    cov["model_drift"] = {"behaviours_lexed": len(g_beh), "token_type_or_flag_mismatches": len(bad), "examples": bad[:3]}
    # ---- verdict: through the API --------------------------------------------------------------------------------------------------
    cases = []
    # field names of STRUCT types also delimited (the way SHOW CREATE TABLE prints them): through the API only
    quoted = [(re.sub(r"\bf([12])\b", lambda m: q[0] + "f" + m.group(1) + q[1], s), t) for s, t in spellings if "STRUCT" in s for q in ("``", "[]")]
    use = spellings + quoted
    for s, t in use:
        tag = {"angleRT"} if ">" in tokens_of(s)[0] else set()
        for pos in (0, 1, 2):
            opts = OPTS
            for otxt, oexp in opts:
                cases.append((s, re.sub(r"\s+", "", s), None, pos, otxt, oexp, tag))
    for ddl, ety, esz in OTHER_FORMS:
        if ety is None:
            continue
        for pos in (0, 1, 2):
            for otxt, oexp in OPTS:
                cases.append((ddl, ety, esz, pos, otxt, oexp, set()))
    tasks = []
    for ci, (s, ety, esz, pos, otxt, oexp, tag) in enumerate(cases):
        # every second case stands among neighbours that are nested types themselves, a sized column between two of them
        # ... every third case among neighbours that carry options of their own (a DEFAULT / COMMENT before a nested type must not change how it is lexed)
        cols = list(NEIGHBOURS[ci % 3][0])
        cols.insert(pos, f"focus {s}{otxt}")
        # every third case stands behind an unsupported statement holding a stray `>` (the nesting counter must not leak)
        pre = "CREATE VIEW v0 AS SELECT a FROM t0 WHERE a > 0;\n" if (len(tasks) % 3 == 0 and not tag) else ""
        tasks.append((pre + "CREATE TABLE t1 (" + ", ".join(cols) + ");\n", {}, {}))
    outs, nu = C.parse_many(tasks)
    for ci, ((s, ety, esz, pos, otxt, oexp, tag), tk, o) in enumerate(zip(cases, tasks, outs)):
        case = {"ddl": tk[0], "type": s, "position": pos + 1, "option": otxt.strip(), "spec_dev": sorted(tag)}
        want_others = NEIGHBOURS[ci % 3][1]
        ncols = len(want_others) + 1
        paths = []
        if o[0] != "ok":
            paths = ["raised"]
        else:
            tabs = [e for e in o[1] if "table_name" in e]
            if len(tabs) != 1 or len(tabs[0]["columns"]) != ncols:
                paths = ["table"]
            else:
                cs = tabs[0]["columns"]
                f = cs[pos]
                got = re.sub(r"\s+", "", f["type"] or "")
                if f["name"] != "focus" or got.lower() != ety.lower() or not balanced(f["type"] or ""):
                    paths.append("type")
                elif "<" not in s:
                    # a non-nested type is reported word for word: the written words without the size, ` ARRAY` as `[]`
                    exact = re.sub(r"\s*\([^)]*\)", "", s).replace(" ARRAY", "[]").strip()
                    if f["type"] != exact:
                        paths.append("type")
                size = f.get("size")
                if isinstance(size, tuple):
                    size = list(size)
                if esz is not None and size != esz:
                    paths.append("size")
                for k2, v2 in oexp.items():
                    if f.get(k2) != v2:
                        paths.append("option")
                others = [c for i, c in enumerate(cs) if i != pos]
                if [(c["name"], re.sub(r"\s+", "", c["type"] or ""), c["size"], c["nullable"]) for c in others] != want_others:
                    paths.append("neighbours")
            case["observed"] = [(c["name"], c["type"], c["size"]) for c in tabs[0]["columns"]] if len(tabs) == 1 else None
        if paths:
            V.mismatch(dict(case, paths=paths), tags=tag, paths=paths)
    rc = V.finish()
    cov.update({"states": states, "transitions": trans, "traces_validated_against_impl": len(g_beh) + len(cases), "api_cases": len(cases),
                "samples": [{"type": use[len(use) // 2][0], "tokens": tokens_of(use[len(use) // 2][0]), "ddl": tasks[len(tasks) // 3][0]}],
                "exhaustive": True, "known_findings_met": V.hits})
    C.write_evidence(PID, tier, seed, cov, time.time() - t0, len(V.viol),
                     ["type text is compared with all white space removed and case-insensitively for the constructor words",
                      "the words of a type are the white-space separated chunks after the pre-processor spaced out commas / parentheses (checked against the real lexer)",
                      "TLC, PLY, CPython trusted"])
    return rc


NEIGHBOURS = [(["p1 int NOT NULL", "p2 varchar(7)"], [("p1", "int", None, False), ("p2", "varchar", 7, True)]),
              (["p1 MAP<string, int> NOT NULL", "p2 varchar(7)", "p3 STRUCT<f1:int, f2:string>"],
               [("p1", "MAP<string,int>", None, False), ("p2", "varchar", 7, True), ("p3", "STRUCT<f1:int,f2:string>", None, True)]),
              (["p1 int NOT NULL DEFAULT 0 COMMENT 'n'", "p2 varchar(7) DEFAULT 'n/a'"], [("p1", "int", None, False), ("p2", "varchar", 7, True)])]


def replay(path):
    return C.generic_replay(path)
