"""C10 output_mode only filters presentation; common content is equal in every mode.

Decided by spec/Clauses.tla with every output mode admitted (ShowModes = all 15): ModeFields (a dialect key is at top level
only in the modes documented for it; never lost in its owning mode), Placement and ClauseOrthogonal are model-checked over
every body x clause (pair) x mode; spec/Registry.tla, TableFold.tla and Entities.tla supply the statements whose content
must be mode-independent.  Replay: (1) every shown Clauses behaviour is parsed in the mode TLC chose and each clause key
must sit where TLC placed it (top / table_properties / hidden); (2) every behaviour of the Registry (ALTER / INDEX),
TableFold and Entities generation configurations and every regression-corpus script is parsed in the default mode and
in the other modes (x group_by_type x normalize_names): no mode may raise where the default mode does not, the entity
sequence and every table's common projection (schema <-> dataset renamed at every depth, column dicts reduced to common
attributes, index records without `clustered`) must equal the default mode's, and every top-level table key that is not
a common field must be documented for that mode (frozen table harness/mode_fields.json).
"""
import json
import random
import time

from .. import common as C
from .. import clauses as K
from .. import corpus as CP
from .. import registry as R
from .. import tablefold as T
from .. import entities as E
from . import c04, c11
from .. import tf_check as TF
from .. import ent_check as EF

PID = "C10"
COMMON_COL = ("name", "type", "size", "references", "unique", "nullable", "default", "check")
COMMON_TABLE = set(K.MF["common_table_keys"]) | {"dataset"}


SPECIAL = [
    "CREATE TABLE db1..t1 (a int, b int);\nALTER TABLE db1..t1 ADD UNIQUE (a);\n",
    "CREATE TABLE t1 (a int, b int) ROW FORMAT DELIMITED FIELDS TERMINATED BY 124 LINES TERMINATED BY 10;\n",
    "CREATE TABLE t1 (a int, b int) ROW FORMAT DELIMITED FIELDS TERMINATED BY '|' COLLECTION ITEMS TERMINATED BY 2 MAP KEYS TERMINATED BY 3 LINES TERMINATED BY '\\n' STORED AS TEXTFILE;\n",
    "CREATE TABLE x (a int, b int);\nCREATE TEMPORARY TABLE x (a int, b int, c int);\nALTER TABLE x ADD UNIQUE (a);\nCREATE INDEX i1 ON x (b);\n",
    "CREATE TABLE s1.x (a int, b int);\nCREATE EXTERNAL TABLE s1.x (a int, b int, c int);\nALTER TABLE s1.x ADD c2 int;\nCREATE UNIQUE INDEX i1 ON s1.x (b DESC);\n",
    "CREATE TRANSIENT TABLE x (a int, b int);\nCREATE TABLE x (a int, b int, c int);\nALTER TABLE x DROP COLUMN b;\nALTER TABLE x ADD PRIMARY KEY (a);\n",
    "CREATE TEMP TABLE x (a int);\nCREATE TEMP TABLE x (a int, b int);\nCREATE OR REPLACE TABLE x (a int, b int, c int);\nALTER TABLE x RENAME COLUMN a TO a2;\n",
    "CREATE TABLE t (a int, UNIQUE (b), b int, c int, UNIQUE (c));\n",
    "CREATE TABLE t1 (\n#legacy column, kept for (old) clients\na int,\nb int);\n",
    "#todo: remove\nCREATE TABLE t1 (a int, b int);\n##obsolete\nCREATE TABLE #tmp1 (a int);\n",
    "-- head\nCREATE TABLE t1 (a int, -- one\n b int /* two */\n);\n/* block\n over lines */\nCREATE TABLE [dbo].[t2] ([x] int);\nGO\n",
    "CREATE TABLE t1 (a int DEFAULT 5, b varchar(10) DEFAULT 'x') ;\nSET ANSI_NULLS ON;\nGO\nCREATE TABLE t2 (c int);\n",
    "CREATE TABLE p1.ds.t1 (a int, b int);\nALTER TABLE ds.t1 ADD UNIQUE (a);\nCREATE INDEX i1 ON ds.t1 (b);\n",
    "CREATE TABLE ds.t1 (a int, b int);\nALTER TABLE p1.ds.t1 ADD FOREIGN KEY (a, b) REFERENCES p1.ds.o (x, y);\n",
    "CREATE TABLE `p1`.`ds`.`t1` (a int, b int);\nCREATE UNIQUE INDEX i1 ON `p1`.`ds`.`t1` (a DESC);\n",
    "CREATE TABLE s1.t1 (a int PRIMARY KEY, b varchar(5) ENCODE zstd, c int ENCRYPT) DISTSTYLE KEY DISTKEY (a);\nALTER TABLE s1.t1 DROP COLUMN c;\n",
    "CREATE TABLE t1 (a int, b int) PARTITIONED BY (p date) STORED AS PARQUET LOCATION 's3://x' TBLPROPERTIES ('k'='v');\nCREATE TABLE t2 (a int) CLUSTERED BY (a) INTO 4 BUCKETS;\n",
    "CREATE TABLE s1.t1 (a int, b int);\nCREATE SEQUENCE s1.sq START 1;\nCREATE TYPE s1.ty AS ENUM ('x');\nCREATE SCHEMA sc1;\nSET x = 1;\n",
]


def norm(x, top=True):
    """mode-independent view of a result value"""
    if isinstance(x, dict):
        d = {}
        is_col = "name" in x and "type" in x and ("nullable" in x or "size" in x)
        for k, v in x.items():
            if is_col and k not in COMMON_COL:
                continue
            if k == "clustered":
                continue
            kk = "schema" if k == "dataset" else k
            d[kk] = norm(v, False)
        return d
    if isinstance(x, (list, tuple)):
        return [norm(v, False) for v in x]
    return x


def common_entity(e):
    if "table_name" in e:
        e = {k: v for k, v in e.items() if k in COMMON_TABLE and k != "table_properties"}
    return norm(e)


def common_result(res):
    if isinstance(res, dict):  # grouped
        return {k: ([common_entity(e) for e in v] if k != "comments" else v) for k, v in res.items()}
    return [common_entity(e) if "comments" not in e else e for e in res]


def undocumented_keys(res, mode):
    bad = []
    ents = res if isinstance(res, list) else [e for k, v in res.items() if k != "comments" for e in v]
    for e in ents:
        if "table_name" not in e:
            continue
        for k in e:
            if k in COMMON_TABLE:
                continue
            if mode not in K.MF["modes_of"].get(k, []):
                bad.append(k)
    return bad


def relate(V, inputs, modes, what, flags=({},)):
    """inputs: list of (label, text, ctor).  Real default-mode run vs real run in every other mode."""
    tasks = []
    for lab, text, ctor in inputs:
        for fl in flags:
            c = dict(ctor)
            if fl.get("normalize_names"):
                c["normalize_names"] = True
            g = {"group_by_type": True} if fl.get("group_by_type") else {}
            tasks.append((text, c, dict(g)))
            for m in modes:
                tasks.append((text, c, dict(g, output_mode=m)))
    outs, nu = C.parse_many(tasks)
    i = 0
    n = 0
    for lab, text, ctor in inputs:
        for fl in flags:
            base = outs[i]
            i += 1
            for m in modes:
                o = outs[i]
                i += 1
                n += 1
                case = {"what": what, "input": lab, "ddl": text[:1500], "ctor": ctor, "flags": fl, "mode": m}
                if base[0] != "ok":
                    # the default mode itself fails (C16 / C04 judge that): the mode must not change the kind of failure either
                    if o[0] == "ok" or o[1] != base[1]:
                        V.mismatch(dict(case, problem="the default mode fails, this mode behaves differently", default=base[1:3], this_mode=o[:3] if o[0] != "ok" else "returns a result"),
                                   paths=["raised_differently"])
                    continue
                if o[0] != "ok":
                    V.mismatch(dict(case, problem="mode turns a successful parse into an error", error=o[1:3]), paths=["raised"])
                    continue
                a, b = common_result(base[1]), common_result(o[1])
                if a != b:
                    V.mismatch(dict(case, problem="common content differs from the default mode", paths=C.diff_paths(a, b)[:6]),
                               paths=["common"])
                    continue
                bad = undocumented_keys(o[1], m)
                if bad:
                    V.mismatch(dict(case, problem="dialect field at top level in a mode it is not documented for", keys=bad), paths=["top_keys"])
    return n, nu


def run(tier, seed):
    t0 = time.time()
    rnd = random.Random(seed)
    V = C.Verdict(PID)
    thorough = tier == "thorough"
    cov = {"model_checked": [], "relations": []}
    allmodes = "{" + ", ".join(f'"{m}"' for m in K.MODES) + "}"
    ids = sorted(K.CAT)
    # ---- 1. model checking: placement of every clause key in every mode ---------------------------------------------------
    cs = K.tla_consts(ids, sorted(K.BODIES), MaxClauses=2, ShowModes=allmodes)
    r = c11.mc(cs, "clauses x all modes")
    states, trans = r.distinct, r.generated
    cov["model_checked"].append({"config": "39 clauses, <=2 per table, 15 modes", "distinct_states": r.distinct})
    c11.mc(K.tla_consts(ids, ["plain"], Variant='"swallow"', MaxClauses=1, Bodies='{"last_default"}', ShowModes=allmodes), "swallow", expect="ClauseOrthogonal")
    g = c11.mc(K.tla_consts(ids, ["plain", "table_pk"], MaxClauses=1 if not thorough else 2, ShowModes=allmodes, WithHist="TRUE"), "generation clauses x modes")
    behs = [b for b in g.beh if b["clauses"]]
    modes = [m for m in K.MODES if m != "sql"]
    outs, _ = C.parse_many([("CREATE TABLE t1 (a int, b varchar(10));", {}, {"output_mode": m}) for m in K.MODES])
    baseline = {m: set(o[1][0]) | {"constraints", "table_properties"} for m, o in zip(K.MODES, outs)}
    tasks = [(K.render(b, c11.table_of(b)[0]), {}, {"output_mode": b["mode"]}) for b in behs]
    outs, _ = C.parse_many(tasks)
    nplace = 0
    for b, tk, o in zip(behs, tasks, outs):
        nplace += 1
        b2 = dict(b)
        # values: in the owning mode the catalogue holds the value; elsewhere the value is the default-mode one
        paths, got = c11.check_one(b2, o, baseline[b["mode"]]) if b["mode"] in ("sql", K.CAT[b["clauses"][0]]["dialect"]) else _place_only(b, o, baseline[b["mode"]])
        if paths:
            V.mismatch({"what": "clause placement", "ddl": tk[0], "mode": b["mode"], "clauses": b["clauses"], "paths": paths[:8],
                        "expected": {"top": sorted(b["top"]), "props": sorted(b["props"])}, "observed": got}, paths=paths)
    cov["clause_placements_replayed"] = nplace

    # ---- 2. mode-independence of generated statements ------------------------------------------------------------------------
    qmodes = modes if thorough else ["bigquery", "mssql", "hql", "redshift", "oracle"] + rnd.sample([m for m in modes if m not in ("bigquery", "mssql", "hql", "redshift", "oracle")], 2)
    inputs = []
    gr = c04.mc(c04.consts(WithHist="TRUE", Spells=c04.S2, Lean="TRUE", Kinds=c04.ALLK, MaxStmts=3), "generation registry")
    rb = [b for b in gr.beh if len(b["hist"]) >= 2 and not b["err"]]
    for b in (rb if thorough else rnd.sample(rb, min(len(rb), 400))):
        inputs.append(("registry:" + ",".join(s["k"] for s in b["hist"]), R.render(b["hist"], seed)[0], {}))
    gt = TF.mc(TF.consts(WithHist="TRUE", TypeForms='{"vc","dec"}', MaxOpts=2, ItemKinds=TF.ALLITEMS, ItemCols=TF.IC4, MaxItems=1, Refs='{"r2"}'), "generation tablefold")
    tb = gt.beh if thorough else rnd.sample(gt.beh, min(len(gt.beh), 300))
    for b in tb:
        inputs.append(("tablefold:" + " ".join(TF.abstract(b)), T.render(b["hist"], seed, schema="s1") + "\n", {}))
    ge = EF.mc(EF.consts(WithHist="TRUE", MaxOpts=2, MaxStmts=2, Kinds=E.tla_kinds(E.CATALOG), groups=["start", "cache"]), "generation entities")
    eb = [b for b in ge.beh if b["hist"]]
    for b in (eb if thorough else rnd.sample(eb, min(len(eb), 300))):
        inputs.append(("entities", E.render(b["hist"], seed)[0], {}))
    for i, t in enumerate(SPECIAL):
        inputs.append((f"special:{i}", t, {}))
    # literal-bearing statements (every literal position of C07 x literals the pre-processor treats specially - an escaped quote with an
    # odd total number of quotes, a doubled quote, separators): whatever the default mode reports for them, every mode reports
    from . import c07 as L7
    for lit in ("'it\\'s new'", "'it''s'", "'a (b), c'", "'x = y'", "'plain'"):
        for pid, (ddl, _) in L7.POS.items():
            inputs.append((f"literal:{pid}:{lit}", ddl.replace("{L}", lit) + "\n", {}))
    states += gr.distinct + gt.distinct + ge.distinct
    trans += gr.generated + gt.generated + ge.generated
    n1, _ = relate(V, inputs, qmodes, "generated statements")
    cov["relations"].append({"inputs": len(inputs), "modes": qmodes, "comparisons": n1})
    flags = [{"group_by_type": True}, {"normalize_names": True}]
    n2, _ = relate(V, inputs if thorough else rnd.sample(inputs, min(len(inputs), 200)), qmodes[:3] if not thorough else modes, "generated statements / flags", flags)
    cov["relations"].append({"flags": flags, "comparisons": n2})
    # ---- 3. the regression corpus ------------------------------------------------------------------------------------------------
    corp = CP.harvest()
    cin = [(f"corpus:{i}", r["text"], r["ctor"]) for i, r in enumerate(corp)]
    n3, _ = relate(V, cin, modes if thorough else qmodes[:4], "regression corpus", [{}] if not thorough else [{}, {"group_by_type": True}, {"normalize_names": True}])
    cov["relations"].append({"corpus_scripts": len(cin), "comparisons": n3})

    rc = V.finish()
    cov.update({"states": states, "transitions": trans, "traces_validated_against_impl": nplace + n1 + n2 + n3,
                "samples": [{"clause_behaviour": behs[len(behs) // 2], "ddl": K.render(behs[len(behs) // 2])},
                            {"input": inputs[0][0], "ddl": inputs[0][1], "modes": qmodes}], "exhaustive": True})
    C.write_evidence(PID, tier, seed, cov, time.time() - t0, len(V.viol),
                     ["documented modes per field = the frozen table harness/mode_fields.json (field metadata of the pinned tree)",
                      "the default-mode result is the reference (it is tied to the specification by the other properties' checks)",
                      "TLC, PLY, CPython trusted"])
    return rc


def _place_only(b, o, baseline_keys):
    """a clause shown in a foreign mode: only the placement of its keys is judged"""
    if o[0] != "ok":
        return ["raised"], list(o[:3])
    tabs = [e for e in o[1] if "table_name" in e]
    if len(tabs) != 1:
        return ["tables"], None
    t = tabs[0]
    props = t.get("table_properties") or {}
    paths = []
    for k in b["top"]:
        if k not in t:
            paths.append("top." + k)
    for k in b["props"]:
        if k not in props:
            paths.append("props." + k)
    for k in t:
        if k not in baseline_keys and k not in b["top"]:
            paths.append("extra_top." + k)
    for k in props:
        if k not in b["props"]:
            paths.append("extra_props." + k)
    cols, pk = K.body_projection(t)
    exp = K.BODIES[b["body"]]
    if [tuple(x) for x in cols] != [tuple(x) for x in exp[1]] or pk != exp[2]:
        paths.append("body")
    return paths, {"top": sorted(k for k in t if k not in baseline_keys), "props": sorted(props)}


def replay(path):
    return C.generic_replay(path)
