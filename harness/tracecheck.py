"""Batched trace validation: many recorded executions, one TLC invocation."""
import json
import os
import tempfile

from . import common as C


def validate(module, traces, constants, *, strict, invariants=("TInv",), timeout=900):
    """traces: list of JSON-able trace objects.  Returns (accepted_ids, rejections) where a rejection is the
    decoded REJ payload (tid, failing line, model state before it)."""
    if not traces:
        return set(), [], None
    fd, path = tempfile.mkstemp(prefix="verif_traces_", suffix=".json")
    try:
        with os.fdopen(fd, "w") as f:
            json.dump(traces, f)
        consts = dict(constants)
        consts["Strict"] = "TRUE" if strict else "FALSE"
        r = C.run_tlc(module, dict(init="TInit", next_="TNext", constants=consts,
                                   invariants=list(invariants) + ["Report"]),
                      workers=1, timeout=timeout, env_extra={"TRACE_FILE": path})
        if r.rc != 0 and not r.violated:
            raise C.MachineryError(f"trace validation ({module}) did not run: {r.tail[-1500:]}")
        acc = {p["tid"] for p in r.prints.get("ACC", [])}
        rej = {}
        for p in r.prints.get("REJ", []):
            rej.setdefault(p["tid"], p)
        missing = set(range(1, len(traces) + 1)) - acc - set(rej)
        if r.violated:
            # a contract invariant failed in some state of a validated execution
            rej_inv = [{"tid": 0, "line": 0, "invariant": v} for v in r.violated]
            return acc, list(rej.values()) + rej_inv, r
        if missing:
            raise C.MachineryError(f"trace validation lost traces {sorted(missing)[:5]}: {r.tail[-800:]}")
        return acc, list(rej.values()), r
    finally:
        try:
            os.unlink(path)
        except OSError:
            pass
