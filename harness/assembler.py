"""Renderer / projection for spec/Assembler.tla (layer L): abstract lines -> source text, and the real library's
per-statement / per-line events -> piece ids (drift channel), entities -> expected projection (verdict channel)."""
import re

from . import common as C


# regular expressions with escaped parentheses / backslashes before a closing parenthesis (all read correctly by the pinned tree)
SERDE_RX = [r"([^ ]*) ([^ ]*)", r"([A-Z]:\\\\)(.*)", r"(\\\\\\\\[a-z]+\\\\)([^ ]*)", r"^(\\d+)\\s(.*)$", r"(a|b)\\((c)\\)", r"([^ ]*) \\[([^\\]]*)\\]"]


def pieces(sid, k, n, first_table=None):
    """the code pieces (one per source line) of statement sid"""
    s = str(sid)
    if k == "table":
        if sid % 2 == 0 and n > 1:     # every second multi-line table carries literals that hold the OTHER quote character / a doubled quote
            return {2: [f"CREATE TABLE t{s} (a{s} int DEFAULT '\"',", f"b{s} varchar(5) DEFAULT 'it''s');"],
                    3: [f"CREATE TABLE t{s} (", f"a{s} int DEFAULT '\"', b{s} varchar(5) DEFAULT 'o''c'", ");"]}[n]
        return {1: [f"CREATE TABLE t{s} (a{s} int, b{s} varchar(5));"],
                2: [f"CREATE TABLE t{s} (a{s} int,", f"b{s} varchar(5));"],
                3: [f"CREATE TABLE t{s} (", f"a{s} int, b{s} varchar(5)", ");"]}[n]
    if k == "tablens":
        return {2: [f"CREATE TABLE t{s} (a{s} int,", f"b{s} varchar(5))"],
                3: [f"CREATE TABLE t{s} (", f"a{s} int, b{s} varchar(5)", ")"]}[n]
    if k == "serde":
        rx = SERDE_RX[(first_table or 0) % len(SERDE_RX)]      # the SAME regex in every serde table of a script, another one per script shape
        return {1: [f"CREATE TABLE t{s} (a{s} int, b{s} varchar(5)) ROW FORMAT SERDE 'org.apache.hadoop.hive.serde2.RegexSerDe' "
                    f'WITH SERDEPROPERTIES ("input.regex" = "{rx}") STORED AS TEXTFILE;']}[n]
    if k == "alter_rn":
        t = first_table if first_table is not None else 1
        return {1: [f'ALTER TABLE t{t} RENAME COLUMN "b{t}" TO "c{t}";']}[n]
    if k == "seq":
        return {1: [f"CREATE SEQUENCE sq{s} START 1;"], 2: [f"CREATE SEQUENCE sq{s}", f"START {s} INCREMENT 2;"]}[n]
    if k == "alter":
        t = first_table if first_table is not None else 1
        return {1: [f"ALTER TABLE t{t} ADD UNIQUE (a{t});"], 2: [f"ALTER TABLE t{t}", f"ADD UNIQUE (a{t});"]}[n]
    if k == "view":
        return {1: [f"CREATE VIEW v{s} AS SELECT 1;"], 2: [f"CREATE VIEW v{s} AS", f"SELECT a FROM x{s};"]}[n]
    if k == "ext":   # rejected only at END of input (every token is a valid grammar prefix)
        return {1: [f"CREATE EXTENSION ext{s};"]}[n]
    if k == "unsup":
        one = [f"SELECT * FROM x{s};", f"SELECT * FROM x{s} WHERE tz = '+02:00';", f"COMMENT ON TABLE x{s} IS 'written in C++ (v2.1)';",
               f"UPDATE x{s} SET tz = '+02:00' WHERE a LIKE '+1%';", f"SELECT 'a-b_c.d:e/f~h!i@j$l%m^n&o*p|q?r<s>t{{u}}v[w]x' FROM y{s};", f"CALL proc{s}('x', \"y+z\", 1.5);",
               f"ANALYZE TABLE x{s} COMPUTE STATISTICS FOR COLUMNS a, b;",
               # a CREATE TABLE the grammar rejects inside its 2nd / 3rd item (the whole statement is unsupported input: no partial entity)
               f"CREATE TABLE x{s} (a int, b decimal(10,2) DEFAULT, c int);", f"CREATE TABLE x{s} (a int NOT NULL, b int NOT, c varchar(5));",
               f"CREATE TABLE x{s} (a int, b int, PRIMARY KEY (a,), c int);"][(sid + 3 * (first_table or 0)) % 10]      # (the position of the script's first table rotates the pool)
        return {1: [one], 2: [f"SELECT a{s},", f"b FROM x{s};"], 3: [f"SELECT a{s}", f"FROM x{s}", f"WHERE a{s} > 1;"]}[n]
    if k == "insert":
        return {1: [f"INSERT INTO x{s} VALUES ({s}, 2);"], 2: [f"INSERT INTO x{s}", f"VALUES ({s}, 2);"]}[n]
    if k == "upsert":
        return {2: [f"INSERT INTO x{s} (id, q) VALUES ({s}, 5) ON CONFLICT (id) DO UPDATE", f"SET q{s} = EXCLUDED.q{s};"]}[n]
    if k == "grant":
        return {1: [f"GRANT ALL ON x{s} TO u{s};"]}[n]
    if k == "go":
        return {1: ["GO"]}[n]
    if k == "set":
        return {1: [f"SET opt{s} = {s};"]}[n]
    if k == "drop":
        return {1: [f"DROP TABLE d{s};"]}[n]
    raise ValueError(k)


TEXTS = ["note{c} alpha", "Use the customer key{c}, not the name", "GO ahead note{c}; delete later", "insert note{c} into x values (1)", "create table zz{c} (y int); drop", "note{c}, (paren) and; semi", "ALTER TABLE qq{c} ADD xx{c}", "primary key{c} = 5",
         "1) surrogate key{c}", "see note{c} (a", "key{c} :) or ((",
         "valid 2019\u20132021 note{c}", "legacy{c} \u2014 remove", "gr\u00f6\u00dfe note{c} \u00e9t\u00e9"]


def salt(beh):
    """per-behaviour offset into the comment text pool, so that one run uses every text at every position"""
    k = next((i for i, l in enumerate(beh["lines"]) if l["cm"]["style"] != "none"), 0)
    return k * 3 + len(beh["lines"]) * 5 + len(beh["stmts"])


def cm_text(cid, dash, seed):
    t = TEXTS[(cid + seed) % len(TEXTS)].format(c=cid)
    return t + (f" -- beta{cid}" if dash else "")


def render_line(l, stmts, seed, first_table):
    c, cm = l["code"], l["cm"]
    code = ""
    if c["k"] != "none":
        code = pieces(c["sid"], c["k"], c["n"], first_table)[c["idx"] - 1]
    st = cm["style"]
    t = cm_text(cm["cid"], cm["dash"], seed) if st != "none" and not (st == "close" and cm["cid"] == 0) else ""
    ind = "    " if l["ind"] else ""
    if st == "none":
        return ind + code
    if st == "dash":
        return ind + ("--", "-- ")[(seed + cm["cid"]) % 2] + t
    if st == "hash":
        if (seed + cm["cid"]) % 3 == 0:
            return ind + "#" + t.split()[0]          # a single word glued to the marker (#TODO)
        if (seed + cm["cid"]) % 3 == 1:
            return ind + "#" + t                      # no space after the marker
        return ind + "# " + t
    if st == "blk1":
        return ind + "/* " + t + " */"
    if st == "open":
        return ind + "/* " + t
    if st == "mid":
        return ind + t + " more"
    if st == "close":
        return ind + t + " end */"
    if st == "tdash":
        # the marker glued to the comment text (`--note`) / a single blank / several blanks before and after it
        return code + (" --", " -- ", "   --  ")[(seed + cm["cid"]) % 3] + t
    if st == "tblk1":
        return code + " /* " + t + " */"
    if st == "topen":
        return code + " /* " + t
    raise ValueError(st)


def first_table_of(stmts):
    for i, s in enumerate(stmts, 1):
        if s["k"] in ("table", "tablens", "serde"):
            return i
    return None


def render(beh, stmts, seed):
    seed = seed + salt(beh)
    ft = first_table_of(stmts)
    return "\n".join(render_line(l, stmts, seed, ft) for l in beh["lines"]) + "\n"


def sq(s):
    return re.sub(r"\s+", "", s)


def expected_entities(beh, stmts):
    """projection of what the script must yield: one item per expected statement, in order (alters merged).
    DROP TABLE is not a supported statement: it must yield nothing (the pinned tree reports a table: finding drop_table)"""
    out = []
    tables = {}
    for st in beh["expected"]:
        sid = st[0][1]
        k = stmts[sid - 1]["k"]
        if k in ("table", "tablens", "serde"):
            tables[sid] = {"kind": "table", "name": f"t{sid}", "cols": [f"a{sid}", f"b{sid}"], "uniq": []}
            out.append(tables[sid])
        elif k == "seq":
            out.append({"kind": "sequence", "name": f"sq{sid}"})
        elif k == "alter":
            ft = first_table_of(stmts)
            tables[ft]["uniq"].append(f"a{ft}")
        elif k == "alter_rn":
            ft = first_table_of(stmts)
            tables[ft]["cols"] = [f'"c{ft}"' if c == f"b{ft}" else c for c in tables[ft]["cols"]]
    return out


def project_entities(res):
    out = []
    comments = []
    for e in res:
        if "comments" in e:
            comments = list(e["comments"])
        elif "table_name" in e and "columns" in e and e.get("columns"):
            out.append({"kind": "table", "name": e["table_name"], "cols": [c["name"] for c in e["columns"]],
                        "uniq": [c["name"] for c in e["columns"] if c["unique"]]})
        elif "table_name" in e:
            out.append({"kind": "drop", "name": e["table_name"]})
        elif "sequence_name" in e:
            out.append({"kind": "sequence", "name": e["sequence_name"]})
        elif "value" in e and "name" in e:
            out.append({"kind": "set", "name": e["name"], "value": e["value"]})
        else:
            out.append({"kind": "other", "keys": sorted(e)[:4]})
    return out, comments


def source_comments(beh, seed):
    """squeezed text of every source comment, in source order (a multi-line block = its lines joined)"""
    out = {}
    for l in beh["lines"]:
        cm = l["cm"]
        if cm["style"] == "none" or (cm["style"] == "close" and cm["cid"] == 0):
            continue
        t = cm_text(cm["cid"], cm["dash"], seed)
        if cm["style"] == "hash" and (seed + cm["cid"]) % 3 == 0:
            t = t.split()[0]
        if cm["style"] == "mid":
            t += " more"
        if cm["style"] == "close":
            t += " end"
        out.setdefault(cm["cid"], []).append(t)
    return [sq(" ".join(v)) for _, v in sorted(out.items())]


def code_texts(beh, stmts):
    ft = first_table_of(stmts)
    return [sq(pieces(l["code"]["sid"], l["code"]["k"], l["code"]["n"], ft)[l["code"]["idx"] - 1]) for l in beh["lines"] if l["code"]["k"] != "none"]


def comment_problems(reported, beh, stmts, seed):
    """C08: every reported item is (part of) one source comment, in source order, and contains no code"""
    seed = seed + salt(beh)
    srcs = source_comments(beh, seed)
    codes = [c for c in code_texts(beh, stmts) if len(c) > 3]
    probs = []
    k = 0
    for it in reported:
        s = sq(it).replace("*/", "").replace("/*", "")
        if not s:
            continue
        if any(c in s for c in codes):
            probs.append("code_in_comments")
            continue
        j = next((j for j in range(k, len(srcs)) if s in srcs[j]), None)
        if j is None:
            probs.append("comment_not_from_source" if not any(s in x for x in srcs) else "comment_order")
        else:
            k = j
    return probs


def tla_stmts(stmts):
    return "<<" + ", ".join(f'[k |-> "{s["k"]}", n |-> {s["n"]}]' for s in stmts) + ">>"
