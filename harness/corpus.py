"""The regression corpus: every DDL text the repository's tests feed to DDLParser, harvested at check time
from the current working tree (so it follows the tests, not a frozen copy)."""
import json
import os
import subprocess
import tempfile

from . import common as C

_CACHE = None


def harvest():
    global _CACHE
    if _CACHE is not None:
        return _CACHE
    fd, out = tempfile.mkstemp(prefix="verif_corpus_", suffix=".json")
    os.close(fd)
    try:
        env = dict(os.environ, VERIF_CORPUS_OUT=out,
                   PYTHONPATH=os.path.join(C.VERIF, "harness") + os.pathsep + C.REPO)
        env.pop(C.GUARD, None)
        p = subprocess.run([C.PY, "-m", "pytest", "-q", "-x", "-p", "no:cacheprovider", "-p", "verif_corpus_plugin",
                            "tests"], cwd=C.REPO, env=env, stdout=subprocess.PIPE, stderr=subprocess.STDOUT, text=True)
        try:
            recs = json.load(open(out))
        except Exception:
            raise C.MachineryError("corpus harvest failed:\n" + p.stdout[-1500:])
    finally:
        os.unlink(out)
    seen, uniq = set(), []
    for r in recs:
        dump_free = [dict((k, v) for k, v in ru.items() if k not in ("dump", "dump_path", "file_path")) for ru in r["runs"]]
        ctor = {k: v for k, v in r["ctor"].items() if k in ("silent", "normalize_names")}
        k = (r["text"], json.dumps(ctor, sort_keys=True))
        if k in seen or not r["text"].strip():
            continue
        seen.add(k)
        uniq.append({"text": r["text"], "ctor": ctor, "runs": dump_free or [{}]})
    if len(uniq) < 100:
        raise C.MachineryError(f"corpus harvest too small ({len(uniq)}):\n" + p.stdout[-800:])
    _CACHE = uniq
    return uniq
