"""pytest plugin (loaded with -p verif_corpus_plugin): records every DDLParser(...) input and every run(...)
argument set the repository's own test-suite constructs, from the CURRENT working tree."""
import json
import os

_REC = []


def pytest_configure(config):
    from simple_ddl_parser import parser as P

    orig_init = P.Parser.__init__
    orig_run = P.Parser.run

    def init(self, content, *a, **kw):
        self._verif_rec = {"text": content, "ctor": {k: v for k, v in kw.items() if isinstance(v, (bool, str, int))},
                           "runs": []}
        if isinstance(content, str) and not a:
            _REC.append(self._verif_rec)
        return orig_init(self, content, *a, **kw)

    def run(self, *a, **kw):
        rec = getattr(self, "_verif_rec", None)
        if rec is not None:
            rec["runs"].append({k: v for k, v in kw.items() if isinstance(v, (bool, str, int))})
        return orig_run(self, *a, **kw)

    P.Parser.__init__ = init
    P.Parser.run = run


def pytest_unconfigure(config):
    out = os.environ.get("VERIF_CORPUS_OUT")
    if out:
        with open(out, "w") as f:
            json.dump(_REC, f)
