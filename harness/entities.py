"""Renderer / projection tables for spec/Entities.tla (sequences and the C18 entity kinds)."""
import json
import random

VALUES = {"v0": 0, "v1": 1, "vn": -1, "v7": 1000, "vb": 2 ** 31, "vB": 2 ** 63 - 1, "vm": -2 ** 63, "vq": 20, "vz": -5}
FORMS = {"increment": ["INCREMENT", "INCREMENT BY"], "start": ["START", "START WITH"], "minvalue": ["MINVALUE", "NO MINVALUE"],
         "maxvalue": ["MAXVALUE", "NO MAXVALUE"], "cache": ["CACHE", "CACHE n"], "order": ["ORDER", "NOORDER"]}
KEY = {"INCREMENT": "increment", "INCREMENT BY": "increment_by", "START": "start", "START WITH": "start_with", "MINVALUE": "minvalue",
       "NO MINVALUE": "minvalue", "MAXVALUE": "maxvalue", "NO MAXVALUE": "maxvalue", "CACHE": "cache", "CACHE n": "cache",
       "ORDER": "order", "NOORDER": "noorder"}
KW_COLS = ["start", "cache", "minvalue", "maxvalue", "increment", "noorder"]


def tla_forms(groups):
    return "[" + ", ".join(f"{g} |-> {{" + ", ".join(f'"{f}"' for f in FORMS[g]) + "}" for g in groups) + "]"


def recase(word, rnd):
    m = rnd.randrange(3)
    return word.upper() if m == 0 else word.lower() if m == 1 else "".join(c.upper() if i % 2 else c.lower() for i, c in enumerate(word))


# C18 catalogue: (kind, form) -> (ddl, expected entity (keys that must be present with these values), marker key)
CATALOG = {
    ("type", "enum1"): ("CREATE TYPE ty1 AS ENUM ('a');", {"schema": None, "type_name": "ty1", "base_type": "ENUM", "properties": {"values": ["'a'"]}}),
    ("type", "enum3s"): ("CREATE TYPE s1.ty2 AS ENUM ('a', 'b c', 'd');", {"schema": "s1", "type_name": "ty2", "base_type": "ENUM",
                                                                        "properties": {"values": ["'a'", "'b c'", "'d'"]}}),
    ("type", "enum2q"): ('CREATE TYPE "S1"."Ty3" AS ENUM (\'x\', \'y\');', {"schema": '"S1"', "type_name": '"Ty3"', "base_type": "ENUM",
                                                                     "properties": {"values": ["'x'", "'y'"]}}),
    ("type", "object"): ("CREATE TYPE s1.ty4 AS OBJECT (f1 int, f2 varchar(5));",
                         {"schema": "s1", "type_name": "ty4", "base_type": "OBJECT",
                          "properties": {"attributes": [{"name": "f1", "type": "int", "size": None}, {"name": "f2", "type": "varchar", "size": 5}]}}),
    ("type", "table"): ("CREATE TYPE ty5 AS TABLE (a int, b varchar(3));", {"schema": None, "type_name": "ty5"}),
    ("type", "table_kw"): ("CREATE TYPE s1.ty6 AS TABLE (type int, comment varchar(3), b int);", {"schema": "s1", "type_name": "ty6"}),
    ("domain", "vc"): ("CREATE DOMAIN dm1 AS varchar(5);", {"schema": None, "domain_name": "dm1", "base_type": "varchar"}),
    ("domain", "num_s"): ("CREATE DOMAIN s1.dm2 AS numeric(10,2);", {"schema": "s1", "domain_name": "dm2", "base_type": "numeric"}),
    ("domain", "enum"): ("CREATE DOMAIN s1.dm4 AS ENUM ('new', 'paid', 'shipped');", {"schema": "s1", "domain_name": "dm4", "base_type": "ENUM",
                                                                                  "properties": {"values": ["'new'", "'paid'", "'shipped'"]}}),
    ("domain", "sizeless"): ("CREATE DOMAIN dm3 AS int;", {"schema": None, "domain_name": "dm3", "base_type": "int"}),
    ("schema", "plain"): ("CREATE SCHEMA sc1;", {"schema_name": "sc1"}),
    ("schema", "ine"): ("CREATE SCHEMA IF NOT EXISTS sc2;", {"schema_name": "sc2", "if_not_exists": True}),
    ("schema", "auth"): ("CREATE SCHEMA sc3 AUTHORIZATION u1;", {"schema_name": "sc3", "authorization": "u1"}),
    ("schema", "ine_auth"): ("CREATE SCHEMA IF NOT EXISTS sc4 AUTHORIZATION u1;", {"schema_name": "sc4", "if_not_exists": True, "authorization": "u1"}),
    ("schema", "comment_eq"): ("CREATE SCHEMA sc5 COMMENT = 'x y';", {"schema_name": "sc5", "comment": "'x y'"}),
    ("schema", "comment"): ("CREATE SCHEMA sc6 COMMENT 'x y';", {"schema_name": "sc6", "comment": "'x y'"}),
    ("schema", "ine_comment"): ("CREATE SCHEMA IF NOT EXISTS sc7 COMMENT = 'x';", {"schema_name": "sc7", "if_not_exists": True, "comment": "'x'"}),
    ("database", "plain"): ("CREATE DATABASE db1;", {"database_name": "db1"}),
    ("database", "lower"): ("create database Db2;", {"database_name": "Db2"}),
    ("tablespace", "plain"): ("CREATE TABLESPACE ts1;", {"tablespace_name": "ts1", "type": None, "temporary": False}),
    ("tablespace", "big"): ("CREATE BIGFILE TABLESPACE ts2;", {"tablespace_name": "ts2", "type": "BIGFILE", "temporary": False}),
    ("tablespace", "small"): ("CREATE SMALLFILE TABLESPACE ts3;", {"tablespace_name": "ts3", "type": "SMALLFILE", "temporary": False}),
    ("tablespace", "temp"): ("CREATE TEMPORARY TABLESPACE ts4;", {"tablespace_name": "ts4", "type": None, "temporary": True}),
    ("tablespace", "big_temp"): ("CREATE BIGFILE TEMPORARY TABLESPACE ts5;", {"tablespace_name": "ts5", "type": "BIGFILE", "temporary": True}),
    ("tablespace", "small_temp"): ("CREATE SMALLFILE TEMPORARY TABLESPACE ts6;", {"tablespace_name": "ts6", "type": "SMALLFILE", "temporary": True}),
    # literals holding a `;`, names that merely start with a keyword (declared, then used as column / attribute types and as role)
    ("schema", "comment_semi"): ("CREATE SCHEMA sc8 COMMENT 'orders; invoices';", {"schema_name": "sc8", "comment": "'orders; invoices'"}),
    ("type", "enum_semi"): ("CREATE TYPE s1.ty7 AS ENUM ('a', 'b;c', ';');", {"schema": "s1", "type_name": "ty7", "base_type": "ENUM", "properties": {"values": ["'a'", "'b;c'", "';'"]}}),
    ("domain", "enum_semi"): ("CREATE DOMAIN s1.dm5 AS ENUM ('x;', 'y');", {"schema": "s1", "domain_name": "dm5", "base_type": "ENUM", "properties": {"values": ["'x;'", "'y'"]}}),
    ("type", "kwp_lower"): ("CREATE TYPE array_kind AS ENUM ('a');", {"schema": None, "type_name": "array_kind", "base_type": "ENUM", "properties": {"values": ["'a'"]}}),
    ("type", "kwp_upper"): ("CREATE TYPE s1.ARRAY_KIND AS ENUM ('a');", {"schema": "s1", "type_name": "ARRAY_KIND", "base_type": "ENUM", "properties": {"values": ["'a'"]}}),
    ("domain", "kwp_cap"): ("CREATE DOMAIN Enum_code AS varchar(5);", {"schema": None, "domain_name": "Enum_code", "base_type": "varchar"}),
    ("type", "object_kwp"): ("CREATE TYPE s1.ty8 AS OBJECT (f1 array_kind, f2 Enum_code, f3 int);",
                             {"schema": "s1", "type_name": "ty8", "base_type": "OBJECT",
                              "properties": {"attributes": [{"name": "f1", "type": "array_kind", "size": None}, {"name": "f2", "type": "Enum_code", "size": None},
                                                            {"name": "f3", "type": "int", "size": None}]}}),
    # table types whose columns carry options (an inline key makes the column non-nullable, as in a table), names that ARE reserved words
    ("type", "table_opts"): ("CREATE TYPE s1.ty9 AS TABLE (id int PRIMARY KEY, b varchar(3) NOT NULL, c int UNIQUE);",
                             {"schema": "s1", "type_name": "ty9", "properties": {"columns": [{"name": "id", "type": "int", "size": None, "references": None, "unique": False, "primary_key": True, "nullable": False, "default": None, "check": None}, {"name": "b", "type": "varchar", "size": 3, "references": None, "unique": False, "primary_key": False, "nullable": False, "default": None, "check": None}, {"name": "c", "type": "int", "size": None, "references": None, "unique": True, "primary_key": False, "nullable": True, "default": None, "check": None}]}}),
    ("type", "kw_key"): ("CREATE TYPE key AS ENUM ('a');", {"schema": None, "type_name": "key", "base_type": "ENUM", "properties": {"values": ["'a'"]}}),
    ("type", "kw_check"): ("CREATE OR REPLACE TYPE check AS OBJECT (f1 int);", {"schema": None, "type_name": "check", "base_type": "OBJECT",
                                                                               "properties": {"attributes": [{"name": "f1", "type": "int", "size": None}]}}),
    ("type", "kw_schema_part"): ("CREATE TYPE index.tag AS ENUM ('x');", {"schema": "index", "type_name": "tag", "base_type": "ENUM", "properties": {"values": ["'x'"]}}),
    ("type", "kw_default_table"): ("CREATE TYPE default AS TABLE (a int);", {"schema": None, "type_name": "default"}),
    ("type", "kw_cap"): ("CREATE TYPE Index AS ENUM ('a');", {"schema": None, "type_name": "Index", "base_type": "ENUM", "properties": {"values": ["'a'"]}}),
    ("schema", "auth_kwp"): ("CREATE SCHEMA sc9 AUTHORIZATION array_admin;", {"schema_name": "sc9", "authorization": "array_admin"}),
    ("schema", "auth_kwp_upper"): ("CREATE SCHEMA sc10 AUTHORIZATION ARRAY_ADMIN;", {"schema_name": "sc10", "authorization": "ARRAY_ADMIN"}),
    ("database", "kwp"): ("CREATE DATABASE database_1;", {"database_name": "database_1"}),
    ("tablespace", "kwp"): ("CREATE TABLESPACE Table_space1;", {"tablespace_name": "Table_space1", "type": None, "temporary": False}),
    ("table", "uses_kwp"): ("CREATE TABLE tk (a array_kind, b Enum_code NOT NULL, c s1.table_t, d Default_kind, e index_kind);", {"table_name": "tk"}),
    ("table", "uses_kwp_upper"): ("CREATE TABLE ta (a int, b ARRAY_KIND);", {"table_name": "ta"}),
    ("table", "uses_types"): ('CREATE TABLE tu (a s1.ty2, b dm1, c ty1 NOT NULL, d "S1"."Ty3");', {"table_name": "tu"}),
}
USES_TYPES = [("a", "s1.ty2"), ("b", "dm1"), ("c", "ty1"), ("d", '"S1"."Ty3"')]
USES = {"tu": USES_TYPES, "tk": [("a", "array_kind"), ("b", "Enum_code"), ("c", "s1.table_t"), ("d", "Default_kind"), ("e", "index_kind")],
        "ta": [("a", "int"), ("b", "ARRAY_KIND")]}
MARKER = {"type": "type_name", "domain": "domain_name", "schema": "schema_name", "database": "database_name",
          "tablespace": "tablespace_name", "table": "table_name", "sequence": "sequence_name", "kwtable": "table_name"}
FINDING_TAG = {("domain", "sizeless"): "domain_sizeless", ("schema", "ine_auth"): "schema_ine_auth", ("table", "uses_kwp_upper"): "array_prefix_type_position"}


# keywords of the catalogue statements whose letter case is chosen by seed (AUTHORIZATION and OBJECT are compared by spelling
# in the pinned tree and are left as written: see OBSERVATIONS in DESIGN.md)
RECASE = {"CREATE", "TYPE", "AS", "TABLE", "DOMAIN", "SCHEMA", "IF", "NOT", "EXISTS", "COMMENT", "DATABASE", "TABLESPACE",
          "BIGFILE", "SMALLFILE", "TEMPORARY", "NULL"}


def recase_stmt(ddl, rnd):
    if rnd.random() < 0.34:
        return ddl
    out, in_q, body = [], False, False
    for w in ddl.split(" "):
        body = body or "(" in w          # words inside a parenthesised body may be names: left as written
        if not in_q and not body and w.upper() in RECASE:
            w = recase(w, rnd)
        if w.count("'") % 2 == 1:
            in_q = not in_q
        out.append(w)
    return " ".join(out)


SEQ_NAMES = [(None, "sq{n}"), (None, '"Sq{n}"'), (None, '"ticket.no{n}"'), ("s1", "sq{n}"), ('"app.v2"', '"orders.id_seq{n}"'), ("S1", "[sq{n}]"),
             # an unquoted name spelled like an option word, after the schema dot
             ("dev", "start"), ("app", "Order"), ("s1", "cache"), ("s1", "no"), ("S1", "increment"), ("s1", "MINVALUE"), ("s1", "noorder"), ("s1", "maxvalue"), ("s1", "by"), ("s1", "with")]


def tla_kinds(keys):
    return "{" + ", ".join(f'<<"{k}", "{f}">>' for k, f in keys) + "}"


def render(hist, seed):
    """-> (ddl text, list of expected entity descriptions in order)"""
    rnd = random.Random(f"ent{seed}")
    lines, exp = [], []
    cur = None
    nseq = 0
    for a in hist:
        if a["a"] == "seq":
            nseq += 1
            sch, name = rnd.choice([x for x in SEQ_NAMES if (x[0] is not None) == (a["f"] == "schema")])
            name = name.format(n=nseq)
            cur = {"text": f"{recase('CREATE', rnd)} {recase('SEQUENCE', rnd)} " + (sch + "." if sch else "") + name,
                   "exp": {"schema": sch, "sequence_name": name}}
        elif a["a"] == "opt":
            form = a["form"]
            words = form.replace(" n", "").split()
            txt = " ".join(recase(w, rnd) for w in words)
            if a["v"] != "-":
                txt += " " + str(VALUES[a["v"]])
                val = VALUES[a["v"]]
            else:
                val = False if form.startswith("NO ") else True
            cur["text"] += " " + txt
            cur["exp"][KEY[form]] = val
        elif a["a"] == "end":
            # the terminator glued, after a blank, or on a line of its own; the options on one line or one per line
            lay = rnd.randrange(4)
            body = cur["text"] if lay < 2 else cur["text"].replace(" " + recase("START", rnd), "\n    START").replace(" INCREMENT", "\n    INCREMENT").replace(" CACHE", "\n    CACHE")
            lines.append(body + (";", " ;", "\n;", ";")[lay])
            exp.append(("sequence", cur["exp"], True, None))
            cur = None
        elif a["a"] == "declare":
            ddl, e = CATALOG[(a["k"], a["f"])]
            lines.append(recase_stmt(ddl, rnd))
            exp.append((a["k"], e, False, FINDING_TAG.get((a["k"], a["f"]))))
        elif a["a"] == "kwtable":
            lines.append("CREATE TABLE kw (" + ", ".join(f"{c} int" for c in KW_COLS) + ");")
            exp.append(("kwtable", {"table_name": "kw"}, False, None))
    return "\n".join(lines) + "\n", exp


def canon(x):
    return json.dumps(x, sort_keys=True)


# values that are keywords of the statement (tablespace kind, ENUM / OBJECT) are reported in the case they were written
KEYWORD_VALUED = {"type", "base_type"}


def same(k, a, b):
    if k in KEYWORD_VALUED and isinstance(a, str) and isinstance(b, str):
        return a.upper() == b.upper()
    return canon(a) == canon(b)


def compare_entity(kind, exp, exact, got):
    """-> list of differing paths"""
    if MARKER[kind] not in got:
        return ["kind"]
    paths = []
    if exact:
        if canon(exp) != canon(got):
            for k in sorted(set(exp) | set(got)):
                if k not in exp or k not in got or canon(exp[k]) != canon(got[k]):
                    paths.append(f"key.{k}")
    else:
        for k, v in exp.items():
            if k not in got or not same(k, got[k], v):
                paths.append(f"key.{k}")
    if kind == "kwtable" and [c["name"] for c in got.get("columns", [])] != KW_COLS:
        paths.append("kw_columns")
    if kind == "table" and exp.get("table_name") in USES:
        if [(c["name"], c["type"]) for c in got.get("columns", [])] != USES[exp["table_name"]]:
            paths.append("column_types")
    if kind == "type" and exp.get("type_name") == "ty6":
        if [(c["name"], c["type"], c["size"]) for c in (got.get("properties") or {}).get("columns", [])] != [("type", "int", None), ("comment", "varchar", 3), ("b", "int", None)]:
            paths.append("type_table_columns")
    if kind == "type" and "columns" in (got.get("properties") or {}) and exp.get("type_name") == "ty5":
        if [(c["name"], c["type"], c["size"]) for c in got["properties"]["columns"]] != [("a", "int", None), ("b", "varchar", 3)]:
            paths.append("type_table_columns")
    return paths
