"""Runs inside a throw-away interpreter whose PYTHONPATH points at a scratch copy of the package.
stdin: {"ops": [...], "inputs": [[text, ctor], ...], "valid_sig": str}
ops: ["fault", kind] | ["build"] ; stdout: list of per-build observations."""
import hashlib
import json
import os
import sys
import logging

logging.disable(logging.CRITICAL)
job = json.load(sys.stdin)
import simple_ddl_parser  # noqa
from simple_ddl_parser import DDLParser  # noqa
import ply.yacc as yacc  # noqa

PKG = os.path.dirname(simple_ddl_parser.__file__)
TAB = os.path.join(PKG, "parsetab.py")

_gen = {"n": 0}
_orig = yacc.LRGeneratedTable.__init__


def _counting(self, *a, **k):
    _gen["n"] += 1
    return _orig(self, *a, **k)


yacc.LRGeneratedTable.__init__ = _counting


def file_state():
    if not os.path.exists(TAB):
        return "missing"
    ns = {}
    try:
        exec(open(TAB).read(), ns)
    except Exception:
        return "garbage"
    if ns.get("_tabversion") != yacc.__tabversion__:
        return "oldver"
    return "valid" if ns.get("_lr_signature") == job["valid_sig"] else "stale"


def apply_fault(kind):
    import glob
    for f in glob.glob(os.path.join(PKG, "__pycache__", "parsetab*.pyc")):
        os.unlink(f)
    if kind == "missing":
        if os.path.exists(TAB):
            os.unlink(TAB)
    else:
        with open(TAB, "w") as f:
            f.write(job["fault_files"][kind])


out = []
for op in job["ops"]:
    if op[0] == "fault":
        apply_fault(op[1])
        continue
    before = _gen["n"]
    rec = {}
    try:
        # (every second history builds its first parser in strict mode: which tables are used must not depend on the silent flag)
        probe = DDLParser("create table a (b int);", **job.get("probe_flags", {}))
        rec["build"] = "ok"
    except BaseException as e:  # noqa
        rec["build"] = "exc:" + type(e).__name__
        rec["regenerated"] = _gen["n"] > before
        rec["file_after"] = file_state()
        out.append(rec)
        continue
    rec["regenerated"] = _gen["n"] > before
    rec["file_after"] = file_state()
    h = hashlib.sha1()
    per = []
    g0 = _gen["n"]
    for text, ctor in job["inputs"]:
        try:
            # the probe object's tables are the ones under test; further objects are built the same way
            r = ["ok", DDLParser(text, **ctor).run()]
        except BaseException as e:  # noqa
            r = ["exc", type(e).__name__]
        d = hashlib.sha1(json.dumps(r, default=repr).encode()).hexdigest()[:10]
        per.append(d)
    rec["digests"] = per
    rec["n_prod"] = len(probe.yacc.productions)
    out.append(rec)
json.dump(out, sys.stdout)
