"""Shared driver for the properties decided by spec/Lexer.tla (C06, C09)."""
from . import common as C
from . import lexer as L

OPENERS = ["LIKE", "CONSTRAINT", "FOREIGN", "PRIMARY", "INDEX", "UNIQUE", "CHECK", "WITH", "CLUSTER", "BY", "KEY", "COLLATE", "AUTOINCREMENT", "AUTO_INCREMENT"]
INV = ["NameIsID", "DepthTracked", "CommaInAngle", "TypeClosed", "TypeStartsLT", "FreshAtStart", "ClauseMode"]


def consts(tb, templates, **kw):
    d = dict(Templates="{" + ", ".join(L.tla_template(t) for t in templates) + "}",
             FirstLiners="{" + ", ".join(f'"{x}"' for x in sorted(tb["first"])) + "}",
             AlterTokens="{" + ", ".join(f'"{x}"' for x in sorted(tb["alt"])) + "}",
             ClauseOpeners="{" + ", ".join(f'"{x}"' for x in OPENERS) + "}",
             ResetFlags="AllFlags", NameGuard="TRUE", WithHist="FALSE")
    d.update(kw)
    return d


def mc(cs, what, invs=INV, expect=None, timeout=900):
    hist = cs["WithHist"] == "TRUE"
    use = list(invs) + (["EmitBeh"] if hist else [])
    if expect:
        use = [expect]
    r = C.run_tlc_wrapped("Lexer", cs, dict(spec="Spec", invariants=use, view=None if hist else "View"), workers=1 if hist else C.NCPU, timeout=timeout)
    if expect:
        if expect not in r.violated:
            raise C.MachineryError(f"negative control {what}: TLC no longer refutes {expect} (violated={r.violated})\n{r.tail[-600:]}")
    else:
        C.require_tlc_ok(r, what)
    return r


def _lex_task(text):
    return L.lex_real(text)


def drift_count(behs):
    """token types and final flags of the real lexer vs the model, behaviour by behaviour"""
    texts = [" ".join(t["v"] for t in b["toks"]) for b in behs]
    reals = C.pool().map(_lex_task, texts, 64)
    bad = []
    for b, text, real in zip(behs, texts, reals):
        mt = [t["type"] for t in b["toks"]]
        rt = [x[0] for x in real]
        if mt != rt or (real and real[-1][2] and any(real[-1][2][k] != b["flags"][k] for k in real[-1][2])):
            bad.append({"text": text, "model": mt, "real": rt})
    return bad
