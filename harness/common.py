"""Shared plumbing: TLC driver, behaviour export parsing, real-code execution pool,
known-finding attribution, evidence files, verdict printing.

Std-lib only; run with /venv/bin/python (the interpreter that has /repo's deps).
"""
import json
import os
import re
import shutil
import subprocess
import sys
import tempfile
import time
import hashlib
import multiprocessing as mp

VERIF = os.path.dirname(os.path.dirname(os.path.abspath(__file__)))
REPO = os.environ.get("VERIF_REPO", "/repo")
SPEC = os.path.join(VERIF, "spec")
EVID = os.environ.get("VERIF_EVID") or os.path.join(VERIF, "evidence")
REPLAYS = os.environ.get("VERIF_REPLAYS") or os.path.join(VERIF, "replays")
PY = "/venv/bin/python"
GUARD = "SIMPLE_DDL_PARSER_VERIF"
NCPU = min(16, os.cpu_count() or 4)


class MachineryError(Exception):
    """exit code 2: the machinery failed, no verdict."""


# ----------------------------------------------------------------------------
# TLC
# ----------------------------------------------------------------------------
class TLCResult:
    def __init__(self):
        self.generated = 0
        self.distinct = 0
        self.depth = 0
        self.violated = []  # invariant / property names
        self.beh = []  # decoded JSON payloads printed as <<"BEH", "...">>
        self.prints = {}  # tag -> list of decoded payloads for other tags
        self.coverage = {}  # action name -> (count distinct, count total)
        self.wall = 0.0
        self.tail = ""
        self.ok = False
        self.cmd = ""


_PRINT_RE = re.compile(r'^<<"([A-Z_]+)", (".*")>>$')
_COV_RE = re.compile(r"^<(\w+) line \d+, col \d+ to line \d+, col \d+ of module (\w+)>: (\d+):(\d+)")


def make_cfg(path, *, init="Init", next_="Next", spec=None, constants=None, invariants=(),
             properties=(), constraint=None, action_constraint=None, view=None,
             deadlock=False, postcondition=None, symmetry=None):
    lines = []
    if spec:
        lines.append(f"SPECIFICATION {spec}")
    else:
        lines += [f"INIT {init}", f"NEXT {next_}"]
    if constants:
        lines.append("CONSTANTS")
        for k, v in constants.items():
            lines.append(f"  {k} = {v}" if not str(v).startswith("<-") else f"  {k} {v}")
    for i in invariants:
        lines.append(f"INVARIANT {i}")
    for p in properties:
        lines.append(f"PROPERTY {p}")
    if constraint:
        lines.append(f"CONSTRAINT {constraint}")
    if action_constraint:
        lines.append(f"ACTION_CONSTRAINT {action_constraint}")
    if view:
        lines.append(f"VIEW {view}")
    if postcondition:
        lines.append(f"POSTCONDITION {postcondition}")
    if symmetry:
        lines.append(f"SYMMETRY {symmetry}")
    lines.append(f"CHECK_DEADLOCK {'TRUE' if deadlock else 'FALSE'}")
    with open(path, "w") as f:
        f.write("\n".join(lines) + "\n")


def tla_set(xs):
    return "{" + ", ".join(xs) + "}"


def tla_str(s):
    return '"' + s.replace("\\", "\\\\").replace('"', '\\"') + '"'


def run_tlc(module, cfg_kwargs, *, workers=None, timeout=900, coverage=False, simulate=None,
            depth=None, seed=None, env_extra=None, keep_prints=True, extra_modules=()):
    """Run TLC on spec/<module>.tla with a generated cfg.  Returns TLCResult.

    The spec directory is copied to a private temp dir (so parallel checks do not
    share TLC's state directories); it is removed afterwards.
    """
    res = TLCResult()
    work = tempfile.mkdtemp(prefix="verif_tlc_")
    try:
        for fn in os.listdir(SPEC):
            if fn.endswith(".tla"):
                shutil.copy(os.path.join(SPEC, fn), work)
        for name, text in extra_modules:
            with open(os.path.join(work, name), "w") as f:
                f.write(text)
        cfg = os.path.join(work, f"{module}_run.cfg")
        make_cfg(cfg, **cfg_kwargs)
        cmd = ["tlc", "-workers", str(workers or NCPU), "-metadir", os.path.join(work, "meta"),
               "-noGenerateSpecTE", "-config", cfg]
        if coverage:
            cmd += ["-coverage", "1"]
        if simulate:
            cmd += ["-simulate", simulate]
        if depth:
            cmd += ["-depth", str(depth)]
        if seed is not None:
            cmd += ["-seed", str(seed)]
        cmd.append(f"{module}.tla")
        res.cmd = " ".join(cmd[:1] + [c for c in cmd[1:] if not c.startswith(work)] + [f"{module}.tla"])
        env = dict(os.environ)
        if env_extra:
            env.update(env_extra)
        t0 = time.time()
        try:
            p = subprocess.run(cmd, cwd=work, env=env, stdout=subprocess.PIPE, stderr=subprocess.STDOUT,
                               text=True, timeout=timeout)
            out = p.stdout
            rc = p.returncode
        except subprocess.TimeoutExpired as e:
            out = (e.stdout or b"").decode() if isinstance(e.stdout, bytes) else (e.stdout or "")
            rc = -9
            subprocess.run(["pkill", "-f", work], check=False)
        res.wall = time.time() - t0
        other = []
        for line in out.splitlines():
            m = _PRINT_RE.match(line)
            if m:
                if keep_prints:
                    try:
                        payload = json.loads(json.loads(m.group(2)))
                    except Exception:
                        raise MachineryError("cannot decode TLC print: " + line[:200])
                    if m.group(1) == "BEH":
                        res.beh.append(payload)
                    else:
                        res.prints.setdefault(m.group(1), []).append(payload)
                continue
            other.append(line)
            m = re.search(r"(\d+) states generated, (\d+) distinct states found", line)
            if m:
                res.generated, res.distinct = int(m.group(1)), int(m.group(2))
            m = re.search(r"depth of the complete state graph search is (\d+)", line)
            if m:
                res.depth = int(m.group(1))
            m = re.match(r"Error: Invariant (\w+) is violated", line)
            if m:
                res.violated.append(m.group(1))
            m = re.match(r"Error: Action property (\w+) is violated", line)
            if m:
                res.violated.append(m.group(1))
            m = re.match(r"Error: Temporal properties were violated", line)
            if m:
                res.violated.append("TEMPORAL")
            m = _COV_RE.match(line)
            if m:
                res.coverage[m.group(1)] = (int(m.group(3)), int(m.group(4)))
        res.tail = "\n".join(other[-60:])
        res.ok = (rc == 0 and not res.violated and
                  ("No error has been found" in out or (simulate and rc == 0)))
        res.rc = rc
        return res
    finally:
        shutil.rmtree(work, ignore_errors=True)


def run_tlc_wrapped(module, consts, cfg_kwargs, **kw):
    """Like run_tlc, but every constant is given as a TLA+ expression through a generated wrapper module
    (cfg files cannot hold tuples / records): MC_<module> EXTENDS <module>, `K <- c_K`."""
    wrap = "MC_" + module
    body = [f"---- MODULE {wrap} ----", f"EXTENDS {module}"]
    cs = {}
    for k, v in consts.items():
        body.append(f"c_{k} == {v}")
        cs[k] = f"<- c_{k}"
    body.append("====")
    ck = dict(cfg_kwargs)
    ck["constants"] = cs
    extra = list(kw.pop("extra_modules", ())) + [(wrap + ".tla", "\n".join(body) + "\n")]
    return run_tlc(wrap, ck, extra_modules=extra, **kw)


def require_tlc_ok(r, what):
    if not r.ok:
        raise MachineryError(f"TLC failed on {what}: rc={getattr(r,'rc',None)} violated={r.violated}\n{r.tail}")


# ----------------------------------------------------------------------------
# real code execution
# ----------------------------------------------------------------------------
def _read_shipped_parsetab():
    """the parse-table file as SHIPPED with the tree under test: the committed one when the tree is a git checkout (the working-tree file
    may already have been regenerated by an earlier use of the library), else the file as it is before this process first uses the library"""
    rel = "simple_ddl_parser/parsetab.py"
    if os.path.isdir(os.path.join(REPO, ".git")) or os.path.isfile(os.path.join(REPO, ".git")):
        p = subprocess.run(["git", "-C", REPO, "show", "HEAD:" + rel], stdout=subprocess.PIPE, stderr=subprocess.PIPE, text=True)
        if p.returncode == 0 and p.stdout:
            return p.stdout
    try:
        return open(os.path.join(REPO, rel)).read()
    except OSError:
        return None


SHIPPED_PARSETAB = _read_shipped_parsetab()


def warm_up_repo():
    """Import the library once in a throw-away process so that a stale parse-table
    cache is regenerated before the harness (and its forked workers) import it."""
    env = dict(os.environ, PYTHONPATH=REPO)
    env.pop(GUARD, None)
    p = subprocess.run([PY, "-c", "from simple_ddl_parser import DDLParser; DDLParser('create table a (b int);').run()"],
                       cwd=REPO, env=env, stdout=subprocess.PIPE, stderr=subprocess.PIPE, text=True)
    if p.returncode != 0:
        raise MachineryError("library does not import/run in a fresh process:\n" + p.stderr[-2000:])


def _import_lib():
    if REPO not in sys.path:
        sys.path.insert(0, REPO)
    import logging
    logging.disable(logging.CRITICAL)
    import simple_ddl_parser  # noqa
    assert os.path.abspath(simple_ddl_parser.__file__).startswith(os.path.abspath(REPO)), simple_ddl_parser.__file__
    return simple_ddl_parser


class _NoHooks:
    """stands in for simple_ddl_parser._verif when the guarded instrumentation is not in the tree: nothing is ever emitted"""
    ENABLED = False
    sink = None
    scheduler = None


def hooks():
    _import_lib()
    try:
        from simple_ddl_parser import _verif
        return _verif
    except ImportError:
        return _NoHooks


def _do_parse(task):
    text, ctor, run = task
    lib = _import_lib()
    try:
        r = lib.DDLParser(text, **ctor).run(**run)
        return ("ok", r)
    except BaseException as e:  # noqa
        return ("exc", type(e).__name__, str(e)[:300], [c.__name__ for c in type(e).__mro__])


_POOL = None


def pool():
    global _POOL
    if _POOL is None:
        ctx = mp.get_context("fork")
        _POOL = ctx.Pool(NCPU)
    return _POOL


def close_pool():
    global _POOL
    if _POOL is not None:
        _POOL.terminate()
        _POOL = None


def parse_many(tasks, chunksize=64):
    """tasks: list of (text, ctor_kwargs, run_kwargs) -> list of outcomes, same order.
    Identical tasks are parsed once."""
    keyed = {}
    order = []
    for t in tasks:
        k = json.dumps(t, sort_keys=True)
        if k not in keyed:
            keyed[k] = len(keyed)
        order.append(keyed[k])
    uniq = [None] * len(keyed)
    for k, i in keyed.items():
        uniq[i] = tuple(json.loads(k))
    if len(uniq) < 32:
        outs = [_do_parse(t) for t in uniq]
    else:
        outs = pool().map(_do_parse, uniq, chunksize)
    return [outs[i] for i in order], len(uniq)


def jnorm(x):
    """JSON round trip: the shape in which results cross process boundaries (tuples become lists)"""
    return json.loads(json.dumps(x, default=repr))


def digest(x):
    return hashlib.sha1(json.dumps(x, sort_keys=True, default=repr).encode()).hexdigest()[:12]


# ----------------------------------------------------------------------------
# known findings
# ----------------------------------------------------------------------------
def load_findings(pid):
    path = os.path.join(VERIF, "known_findings.json")
    with open(path) as f:
        data = json.load(f)
    return [e for e in data["findings"] if e["property"] == pid and e.get("status") == "open"]


class Verdict:
    """Collects mismatches, attributes them to listed findings, prints verdict lines."""

    def __init__(self, pid):
        self.pid = pid
        self.findings = load_findings(pid)
        self.hits = {}  # finding id -> count
        self.viol = []  # (case dict)
        self.drift = []
        self.cats = {}  # unattributed mismatches by (spec tags, differing paths)

    def mismatch(self, case, tags=(), paths=()):
        """case: JSON-able description.  tags: deviation tags the *specification* assigns to the
        abstract case.  paths: differing result paths.  Attributed iff EVERY differing path matches a diff
        pattern of some listed finding one of whose tags the specification assigns to this case."""
        live = [f for f in self.findings if set(f["tags"]) & set(tags)]
        if live:
            used = set()
            ok = True
            for p in paths:
                fs = [f for f in live if any(_path_match(pt, p) for pt in f.get("diff", ["*"]))]
                if not fs:
                    ok = False
                    break
                used.add(fs[0]["id"])
            if ok:
                if not paths:
                    used.add(live[0]["id"])
                for fid in used:
                    self.hits[fid] = self.hits.get(fid, 0) + 1
                return sorted(used)[0]
        self.viol.append(case)
        k = "|".join(sorted(tags)) + " :: " + ",".join(sorted(set(paths))[:4])
        if k not in self.cats:
            self.cats[k] = {"n": 0, "example": case.get("ddl", "")[:300] if isinstance(case, dict) else ""}
        self.cats[k]["n"] += 1
        return None

    def finish(self, replay_dir=None):
        for f in self.findings:
            n = self.hits.get(f["id"], 0)
            if n:
                print(f"KNOWN-FINDING: property={self.pid} {f['id']} {f['what']} ({n} cases)")
        if self.viol:
            os.makedirs(REPLAYS, exist_ok=True)
            path = os.path.join(REPLAYS, f"{self.pid}_{int(time.time())}.json")
            with open(path, "w") as fh:
                json.dump({"property": self.pid, "violations": self.viol[:50], "total": len(self.viol), "categories": self.cats}, fh,
                          indent=1, default=repr)
            print(f"VIOLATION property={self.pid} replay={path}")
            first = self.viol[0]
            print("  first: " + json.dumps(first, default=repr)[:1500])
            return 1
        return 0


def generic_replay(path, limit=5):
    """re-runs the stored failing inputs on the CURRENT working tree and prints what the library returns now, next to what the check
    expected / observed when it reported the violation.  Exit status 1: the judgement itself is made by the check (`./check Cxx`)."""
    d = json.load(open(path))
    print(f"{d['property']}: {d['total']} violation(s) recorded; categories: " + json.dumps({k: v["n"] for k, v in d.get("categories", {}).items()})[:600])
    for v in d["violations"][:limit]:
        ddl = v.get("ddl")
        print("-" * 100)
        for k in ("what", "problem", "position", "skeleton", "mode", "paths", "history", "schedule", "abstract"):
            if k in v:
                print(f"{k}: {json.dumps(v[k], default=repr)[:400]}")
        if isinstance(ddl, str):
            run = dict(v.get("run") or {})
            if "mode" in v and "output_mode" not in run and isinstance(v["mode"], str):
                run["output_mode"] = v["mode"]
            out = _do_parse((ddl, v.get("ctor") or {}, run))
            print("ddl:\n" + ddl[:1500])
            print("now returns: " + json.dumps(jnorm(list(out)), default=repr)[:1500])
        for k in ("expected", "observed"):
            if k in v:
                print(f"{k} (at report time): " + json.dumps(v[k], default=repr)[:800])
    return 1


def _path_match(pat, path):
    if pat == "*":
        return True
    rx = "^" + re.escape(pat).replace(r"\*", "[^.]*") + "($|\\.)"
    return re.match(rx, path) is not None


# ----------------------------------------------------------------------------
# evidence
# ----------------------------------------------------------------------------
def write_evidence(pid, tier, seed, coverage, wall, violations, assumptions, level="model_checking"):
    os.makedirs(EVID, exist_ok=True)
    ev = {
        "property_id": pid,
        "tier": tier,
        "seed": int(seed),
        "level": level,
        "coverage": coverage,
        "assumptions": assumptions,
        "wall_s": round(wall, 2),
        "violations": int(violations),
    }
    with open(os.path.join(EVID, f"{pid}.json"), "w") as f:
        json.dump(ev, f, indent=1, default=repr)


def diff_paths(a, b, prefix=""):
    """list of dotted paths where JSON-like values differ"""
    if type(a) != type(b):
        return [prefix or "."]
    if isinstance(a, dict):
        out = []
        for k in sorted(set(a) | set(b), key=str):
            if k not in a or k not in b:
                out.append(f"{prefix}.{k}" if prefix else str(k))
            else:
                out += diff_paths(a[k], b[k], f"{prefix}.{k}" if prefix else str(k))
        return out
    if isinstance(a, list):
        if len(a) != len(b):
            return [(prefix or ".") + ".#len"]
        out = []
        for i, (x, y) in enumerate(zip(a, b)):
            out += diff_paths(x, y, f"{prefix}.{i}" if prefix else str(i))
        return out
    return [] if a == b else [prefix or "."]
