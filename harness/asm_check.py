"""Shared driver for the properties decided by spec/Assembler.tla (C03, C08, C16)."""
import os

from . import common as C
from . import assembler as A

INV = ["NoCommentInCode", "SubmittedExact", "CleanBoundary", "CommentsFromSource", "SetsEmitted"]
ALLCM = '{"dash","hash","blk1","block2","block3","tdash","tblk1","topen"}'


def kinds(*ds):
    return "{" + ", ".join(f'[k |-> "{k}", n |-> {n}]' for k, n in ds) + "}"


def consts(sk, **kw):
    d = dict(StmtKinds=kinds(*sk), MaxStmts=2, Variant='"shipped"', CmStyles="{}", MaxCm=0, Indents="{FALSE}", DashInText="{FALSE}",
             TrailingNL="TRUE", WithHist="FALSE")
    d.update(kw)
    return d


def mc(cs, what, expect=None, timeout=900, simulate=None, depth=None, seed=None):
    hist = cs["WithHist"] == "TRUE"
    invs = INV + (["Emit"] if hist else [])
    if expect:
        invs = [expect]
    r = C.run_tlc_wrapped("Assembler", cs, dict(spec="Spec", invariants=invs, view=None if hist else "View"),
                          workers=1 if hist else C.NCPU, timeout=timeout, simulate=simulate, depth=depth, seed=seed)
    if expect:
        if expect not in r.violated:
            raise C.MachineryError(f"negative control {what}: TLC no longer refutes {expect} (violated={r.violated})\n{r.tail[-600:]}")
    else:
        C.require_tlc_ok(r, what)
    return r


def _replay(task):
    """-> (text, outcome, submitted statements seen by the grammar, reported comments)"""
    beh, seed, ctor, run, nl = task
    lib = C._import_lib()
    _verif = C.hooks()
    ev = []
    _verif.sink = ev.append
    text = A.render(beh, beh["stmts"], seed)
    if not nl:
        text = text.rstrip("\n")
    try:
        res = lib.DDLParser(text, **ctor).run(**run)
        out = ("ok", C.jnorm(res))
    except BaseException as e:  # noqa
        out = ("exc", type(e).__name__, str(e)[:200], [c.__name__ for c in type(e).__mro__])
    finally:
        _verif.sink = None
    return text, out, [e["stmt"] for e in ev if e["event"] == "ParseStmt"]


def distinctive(beh, p):
    st = beh["stmts"][p[1] - 1]
    return len(A.sq(A.pieces(p[1], st["k"], st["n"], A.first_table_of(beh["stmts"]))[p[2] - 1]).rstrip(";")) >= 6 + (st["k"] == "tablens" and p[2] == st["n"])


def pieces_in(stmt, beh, seed):
    s = A.sq(stmt)
    ft = A.first_table_of(beh["stmts"])
    found, cids = [], set()
    for l in beh["lines"]:
        c = l["code"]
        if c["k"] != "none":
            t = A.sq(A.pieces(c["sid"], c["k"], c["n"], ft)[c["idx"] - 1]).rstrip(";")
            if c["k"] == "tablens" and c["idx"] == c["n"]:
                t = t[:-1]          # the pending statement loses its last character when the next statement starts
            if len(t) >= 6 and t in s:
                found.append(["code", c["sid"], c["idx"]])
        cm = l["cm"]
        if cm["style"] != "none" and cm["cid"]:
            if any(w % cm["cid"] in s for w in ("note%d", "beta%d", "zz%d", "qq%d", "key%d")):
                cids.add(cm["cid"])
    return found, cids


def drift(beh, subs, seed):
    """does what the grammar received equal what the specification's mechanism submitted (internal; never a verdict)"""
    real = [pieces_in(s, beh, seed) for s in subs]
    model = [([p for p in st if p[0] == "code" and distinctive(beh, p)], {p[1] for p in st if p[0] == "cmt"}) for st in beh["submitted"]]
    return real != model


def spec_tags(beh, seed=None):
    tags = set(beh["dev"])
    if seed is not None:      # a function of the comment-text pool entry the renderer uses for this behaviour
        sd = seed + A.salt(beh)
        if any(l["cm"]["style"] != "none" and l["cm"]["cid"] and not A.cm_text(l["cm"]["cid"], l["cm"]["dash"], sd).isascii() for l in beh["lines"]):
            tags.add("nonascii_comment")
    if any(s["k"] == "drop" for s in beh["stmts"]):
        tags.add("drop_table")
    if any(s["k"] == "upsert" for s in beh["stmts"]):
        tags.add("upsert_tail")
    return tags


def guard_on():
    os.environ[C.GUARD] = "1"
