"""Renderer / projection tables for spec/TableFold.tla (layer G, CREATE TABLE).

render():   TableFold action history -> one CREATE TABLE statement
expected(): the contract observable TLC exported for the behaviour -> concrete projection
project():  the table dict returned by the real library -> the same projection
"""
import re
import random

from .idents import Speller

# type forms: id -> (ddl, type text, size)
TYPES = {
    "int": ("int", "int", None),
    "vc": ("varchar(10)", "varchar", 10),
    "dec": ("decimal(10,2)", "decimal", [10, 2]),
    "dec_sp": ("numeric (12, 4)", "numeric", [12, 4]),
    "dp": ("double precision", "double precision", None),
    "ch": ("char(1)", "char", 1),
    "big": ("BIGINT", "BIGINT", None),
    "txt": ("text", "text", None),
}
# default forms: id -> (ddl, expected value)
DEFAULTS = {
    "d1": ("5", 5), "d2": ("'x y'", "'x y'"), "d3": ("-1", "-1"), "d4": ("1.5", "1.5"), "d5": ("now()", "now()"),
    "d6": ("NULL", "NULL"), "d7": ("CURRENT_TIMESTAMP", "CURRENT_TIMESTAMP"), "d8": ("1000", 1000),
    "d9": ("12345678901234567890", 12345678901234567890), "d10": ("''", "''"), "d11": ("0", 0), "d12": ("'NULL'", "'NULL'"),
    "d13": ("FALSE", "FALSE"), "d14": ("'2020-01-01'", "'2020-01-01'"),
}
# references: id -> (schema, table, on_delete, on_update, clause order)
REFS = {
    "r1": (None, "o", None, None),
    "r2": ("s9", "o", "CASCADE", None),
    "r3": ("s9", "o", "CASCADE", "RESTRICT"),
    "r4": (None, "o", None, "CASCADE"),
    "r5": ("s9", "o", "SET NULL", None),      # two-word actions: known finding KF-C02-twoword
    "r6": (None, "o", None, "NO ACTION"),
    "r7": (None, "o", "SET DEFAULT", "SET NULL"),
}
REFCOLS = ("x", "y", "z")
CHECKS = {"e1": "a > 0", "e2": "b < 3", "c1": "b > 1"}
COMMENTS = {"l1": "'note one'", "l2": "'it, has (punctuation); inside'"}


def ref_clause(rid, ncols, rnd=None):
    sch, tb, od, ou = REFS[rid]
    s = "REFERENCES " + (sch + "." if sch else "") + tb + " (" + ", ".join(REFCOLS[:ncols]) + ")"
    parts = []
    if od:
        parts.append("ON DELETE " + od)
    if ou:
        parts.append("ON UPDATE " + ou)
    if rnd is not None and len(parts) == 2 and rnd.random() < 0.5:
        parts.reverse()
    return " ".join([s] + parts)


def opt_text(o, rnd):
    g, v = o["g"], o["v"]
    if g == "null":
        return "NULL" if v == "null" else "NOT NULL"
    if g == "default":
        return "DEFAULT " + DEFAULTS[v][0]
    if g == "pk":
        return "PRIMARY KEY"
    if g == "unique":
        return "UNIQUE"
    if g == "ref":
        return ref_clause(v, 1, rnd)
    if g == "check":
        return "CHECK (" + CHECKS[v] + ")"
    if g == "comment":
        return "COMMENT " + COMMENTS[v]
    raise ValueError(g)


def item_text(it, rnd):
    k = it["k"]
    cs = ", ".join(it["cs"])
    cn = f"CONSTRAINT {it['cn']} " if it["cn"] else ""
    if k in ("pk", "cpk"):
        return f"{cn}PRIMARY KEY ({cs})"
    if k in ("uniq", "cuniq"):
        return f"{cn}UNIQUE ({cs})"
    if k in ("check", "ccheck"):
        return f"{cn}CHECK ({CHECKS[it['e']]})"
    if k in ("fk", "cfk"):
        return f"{cn}FOREIGN KEY ({cs}) " + ref_clause(it["r"], len(it["cs"]), rnd)
    raise ValueError(k)


def render(hist, seed, table="t1", schema=None, colnames=("a", "b", "c", "d", "e")):
    rnd = random.Random(f"tf{seed}")
    parts = []
    ncol = 0
    cur = None
    for a in hist:
        if a["a"] == "col":
            if cur is not None:
                parts.append(cur)
            cur = f"{colnames[ncol]} {TYPES[a['tf']][0]}"
            ncol += 1
        elif a["a"] == "opt":
            cur += " " + opt_text(a["o"], rnd)
        elif a["a"] == "item":
            if cur is not None:
                parts.append(cur)
                cur = None
            parts.append(item_text(a["it"], rnd))
    if cur is not None:
        parts.append(cur)
    name = (schema + "." if schema else "") + table
    return f"CREATE TABLE {name} (" + ", ".join(parts) + ");"


def _sq(s):
    return re.sub(r"\s+", "", s) if isinstance(s, str) else s


def expected(obs, open_names=()):
    cols = []
    for c in obs["cols"]:
        _, ty, size = TYPES[c["tf"]]
        cols.append({"n": c["n"], "ty": ty, "size": size, "nullable": c["nullable"],
                     "df": None if c["df"] == "none" else DEFAULTS[c["df"]][1],
                     "uq": None if c["n"] in open_names else c["uq"],
                     "ck": None if c["ck"] == "none" else _sq(CHECKS[c["ck"]])})
    refs = []
    for r in obs["refs"]:
        rid, k = r["r"]
        sch, tb, od, ou = REFS[rid]
        if k == 0:  # named FOREIGN KEY constraint: whole column lists
            refs.append({"cs": list(r["cs"]), "sch": sch, "tb": tb, "rc": list(REFCOLS[:len(r["cs"])]), "od": od, "ou": ou})
        else:
            refs.append({"cs": list(r["cs"]), "sch": sch, "tb": tb, "rc": [REFCOLS[k - 1]], "od": od, "ou": ou})
    return {
        "cols": cols,
        "pk": list(obs["pk"]),
        "named": sorted([[n["k"], n["cn"], list(n["cs"])] for n in obs["named"]]),
        "multi": sorted(list(m) for m in obs["multi"]),
        "checks": [{"cn": c["cn"] or None, "e": _sq(CHECKS[c["e"]])} for c in obs["checks"]],
        "refs": sorted(refs, key=repr),
    }


def project_table(t, open_names=()):
    cols = []
    refs = []
    for c in t.get("columns", []):
        size = c.get("size")
        if isinstance(size, tuple):
            size = list(size)
        ck = c.get("check")
        cols.append({"n": c.get("name"), "ty": c.get("type"), "size": size, "nullable": c.get("nullable"), "df": c.get("default"),
                     "uq": None if c.get("name") in open_names else c.get("unique"),
                     "ck": _sq(ck) if isinstance(ck, str) else ck})
        r = c.get("references")
        if r:
            rc = [r["column"]] if "column" in r else list(r.get("columns") or [])
            refs.append({"cs": [c.get("name")], "sch": r.get("schema"), "tb": r.get("table"), "rc": rc, "od": r.get("on_delete"),
                         "ou": r.get("on_update")})
    cons = t.get("constraints") or {}
    named, multi = [], []
    for p in cons.get("primary_keys", []):
        named.append(["cpk", p.get("constraint_name"), list(p["columns"])])
    for u in cons.get("uniques", []):
        if (u.get("constraint_name") or "").startswith("UC_") and u["constraint_name"] == "UC_" + "_".join(u["columns"]):
            multi.append(list(u["columns"]))
        else:
            named.append(["cuniq", u.get("constraint_name"), list(u["columns"])])
    for r in cons.get("references", []):
        nm = r.get("name")
        refs.append({"cs": nm if isinstance(nm, list) else [nm], "sch": r.get("schema"), "tb": r.get("table"),
                     "rc": list(r.get("columns") or ([r["column"]] if "column" in r else [])), "od": r.get("on_delete"),
                     "ou": r.get("on_update")})
    checks = []
    for c in t.get("checks", []):
        st = c.get("statement") if isinstance(c, dict) else c
        checks.append({"cn": c.get("constraint_name") if isinstance(c, dict) else None, "e": _sq(st)})
    return {"cols": cols, "pk": list(t.get("primary_key") or []), "named": sorted(named, key=repr), "multi": sorted(multi),
            "checks": checks, "refs": sorted(refs, key=repr)}


def shape_paths(t):
    """which C12 / shape facts of a raw table dict are off (used for known-finding attribution paths)"""
    out = []
    for i, c in enumerate(t.get("columns", [])):
        r = c.get("references")
        if r and "column" not in r:
            out.append(f"cols.{i}.references.shape")
    return out
