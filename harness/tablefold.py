"""Renderer / projection tables for spec/TableFold.tla (layer G, CREATE TABLE).

render():   TableFold action history -> one CREATE TABLE statement
expected(): the contract observable TLC exported for the behaviour -> concrete projection
project():  the table dict returned by the real library -> the same projection
"""
import re
import random

from .idents import Speller

# type forms: id -> (ddl, type text, size)
TYPES = {
    "int": ("int", "int", None),
    "vc": ("varchar(10)", "varchar", 10),
    "dec": ("decimal(10,2)", "decimal", [10, 2]),
    "dec_sp": ("numeric (12, 4)", "numeric", [12, 4]),
    "dp": ("double precision", "double precision", None),
    "ch": ("char(1)", "char", 1),
    "big": ("BIGINT", "BIGINT", None),
    "txt": ("text", "text", None),
    "ts0": ("timestamp(0)", "timestamp", 0),
    "vc0": ("varchar(0)", "varchar", 0),
    "dec100": ("decimal(10,0)", "decimal", [10, 0]),
}
# default forms: id -> (ddl, expected value)
DEFAULTS = {
    "d1": ("5", 5), "d2": ("'x y'", "'x y'"), "d3": ("-1", "-1"), "d4": ("1.5", "1.5"), "d5": ("now()", "now()"),
    "d6": ("NULL", "NULL"), "d7": ("CURRENT_TIMESTAMP", "CURRENT_TIMESTAMP"), "d8": ("1000", 1000),
    "d9": ("12345678901234567890", 12345678901234567890), "d10": ("''", "''"), "d11": ("0", 0), "d12": ("'NULL'", "'NULL'"),
    "d13": ("FALSE", "FALSE"), "d14": ("'2020-01-01'", "'2020-01-01'"),
    "d15": ("(NULL)", "NULL"), "d16": ("':)'", "':)'"), "d17": ("'a)b'", "'a)b'"), "d18": ("'n/a)'", "'n/a)'"), "d19": ("','", "','"),
    "d20": ("-1.5", "-1.5"), "d21": ("+0.25", "+0.25"), "d22": ("-0.0", "-0.0"), "d23": ("0.00", "0.00"),
    # decimal literals outside the lexer's number pattern (no digit before / after the point, an exponent): finding exotic_decimal
    # one-letter literals that are also literal PREFIXES in some dialects (N'..', E'..', X'..', B'..'): plain strings here
    "d27": ("'N'", "'N'"), "d28": ("'Y/N'", "'Y/N'"), "d29": ("'E'", "'E'"), "d30": ("'X'", "'X'"), "d31": ("'b'", "'b'"),
    "d24": (".5", ".5"), "d25": ("1.", "1."), "d26": ("1.5e3", "1.5e3"),
}
DEFAULT_TAGS = {"d24": "exotic_decimal", "d25": "exotic_decimal", "d26": "exotic_decimal"}
# references: id -> (schema, table, on_delete, on_update, clause order)
REFS = {
    "r1": (None, "o", None, None),
    "r2": ("s9", "o", "CASCADE", None),
    "r3": ("s9", "o", "CASCADE", "RESTRICT"),
    "r4": (None, "o", None, "CASCADE"),
    "r5": ("s9", "o", "SET NULL", None),      # two-word actions: known finding KF-C02-twoword
    "r6": (None, "o", None, "NO ACTION"),
    "r7": (None, "o", "SET DEFAULT", "SET NULL"),
    "r8": (None, "kv", None, None, ("key", "comment", "default")),      # referenced columns named like keywords
    "r9": ("s9", "kv", "CASCADE", None, ("on", "not", "references")),
    "r10": (None, "o", None, None, ()),          # REFERENCES o  - no referenced column list (the parent's primary key): reported as [None]
    "r11": ("s9", "o", None, "CASCADE", ()),
}
REFCOLS = ("x", "y", "z")
# grammar keywords of the pinned tree (frozen here so that the name pool does not follow a changed tokens.py)
KEYWORDS = ['ADD', 'ALTER', 'ARRAY', 'AS', 'AUTOINCREMENT', 'AUTO_INCREMENT', 'AUTO_REFRESH', 'BY', 'CACHE', 'CATALOG', 'CHANGE_TRACKING', 'CHECK',
            'CLONE', 'CLUSTER', 'CLUSTERED', 'COLLATE', 'COLLECTION', 'COLUMN', 'COMMENT', 'CONSTRAINT', 'CREATE', 'DATABASE', 'DEFAULT',
            'DEFERRABLE', 'DELETE', 'DOMAIN', 'DROP', 'ENCODE', 'ENCRYPT', 'ENFORCED', 'ENGINE', 'ENUM', 'ESCAPED', 'EXISTS', 'FILE_FORMAT', 'FOR',
            'FOREIGN', 'FORMAT', 'GENERATED', 'IF', 'IN', 'INCREMENT', 'INDEX', 'INHERITS', 'INITIALLY', 'INTO', 'INVISIBLE', 'ITEMS', 'KEY', 'KEYS',
            'LIKE', 'LOCATION', 'MAP', 'MASKING', 'MAXVALUE', 'MINVALUE', 'MODIFY', 'NO', 'NOORDER', 'NOT', 'NULL', 'ON', 'OPTIONS', 'OR', 'ORDER',
            'PARTITION', 'PARTITIONED', 'PATTERN', 'POLICY', 'PRIMARY', 'REFERENCES', 'RENAME', 'REPLACE', 'ROW', 'SALT', 'SCHEMA', 'SEQUENCE',
            'SERDE', 'SET', 'SKEWED', 'START', 'STORAGE', 'STORED', 'TABLE', 'TABLESPACE', 'TAG', 'TBLPROPERTIES', 'TERMINATED', 'TYPE', 'UNIQUE',
            'UPDATE', 'USING', 'VISIBLE', 'WITH', 'WITHOUT', 'GO', 'USE', 'INSERT', 'GRANT']
ABSTRACT_COLS = ("a", "b", "c", "d", "e")


# words that open statements / client directives in SQL scripts but are no grammar keywords here: legal column names, first on their line
# in the multi-line layouts (the line filter must not take them for a statement)
OPENER_WORDS = ("exit prompt rem remark spool whenever begin end commit rollback merge truncate revoke declare call exec execute print show describe explain "
                "analyze vacuum copy load unload lock unlock stop run quit connect define accept pause host shutdown flush reset optimize repair handler prepare "
                "deallocate savepoint release abort checkpoint listen notify reindex select values do return loop while case when then else fetch open close").split()


# words that are keywords SOMEWHERE in SQL (sort directions, referential actions, constraint states, type words, modifiers) but legal whole
# column names here - every one verified on the pinned tree as column name, in key / unique / foreign-key lists and in checks
WHOLE_WORDS = ("asc desc nulls first last action cascade restrict deferred immediate enable disable validate novalidate nonclustered value name "
               "date time timestamp user level size text year zone always identity virtual hash btree unsigned zerofill binary character charset "
               "names temporary external transient to of any all some").split()      # (no grammar keywords: inside CHECK expressions those are C06's business)


def name_map(seed, salt=0):
    """abstract column names -> concrete identifiers.  seed 0 keeps a, b, c; other seeds draw keyword-shaped but legal
    identifiers (a keyword with a suffix / prefix, any case) so that prefix / substring matching of keywords shows."""
    if seed % 8 == 5:   # statement-opener words as column names
        rnd = random.Random(f"openers{seed}:{salt}")     # (salt: another draw per behaviour, so that one run meets every word)
        ws = rnd.sample(OPENER_WORDS, len(ABSTRACT_COLS))
        return {c: (w if rnd.random() < 0.6 else (w.upper() if rnd.random() < 0.5 else w.capitalize())) for c, w in zip(ABSTRACT_COLS, ws)}
    if seed % 8 == 6:   # whole words: sort directions, referential actions, modifiers ... as column names (any letter case)
        rnd = random.Random(f"whole{seed}:{salt}")
        ws = rnd.sample(WHOLE_WORDS, len(ABSTRACT_COLS))
        # (asc / desc stay in lower case: written ASC / DESC inside a key list they ARE the sort direction words - see OBSERVATIONS.md)
        return {c: (w if rnd.random() < 0.6 or w in ("asc", "desc") else (w.upper() if rnd.random() < 0.5 else w.capitalize())) for c, w in zip(ABSTRACT_COLS, ws)}
    if seed % 8 == 7:   # legal identifier characters beyond letters: `#`, `$`, a leading underscore, digits inside
        return {"a": "serial#", "b": "file$no", "c": "_lead", "d": "blk#2", "e": "x2y#"}
    if seed % 8 == 0:
        return {c: c for c in ABSTRACT_COLS}
    if seed % 8 == 1:   # names that merely START with a word the lexer matches by regular expression / prefix
        return {"a": "collateral_id", "b": "auto_incremented", "c": "ARRAY_len", "d": "autoincrement_no", "e": "Collated_at"}
    if seed % 8 == 2:   # legal sibling names that differ only by quoting / letter case
        return {"a": '"Col"', "b": "col", "c": "COL", "d": "`col`", "e": "[Col]"}
    rnd = random.Random(f"names{seed}:{salt}")
    out, used = {}, set()
    for c in ABSTRACT_COLS:
        while True:
            k = rnd.choice(KEYWORDS)
            k = k.lower() if rnd.random() < 0.7 else (k if rnd.random() < 0.5 else k.capitalize())
            n = rnd.choice([k + "_" + c, k + "s" + c, c + "_" + k, k + "ral_" + c, k + c])
            if n.lower() not in used:
                used.add(n.lower())
                out[c] = n
                break
    return out
# check expressions ({a} {b} are replaced by the concrete column names)
CHECKS = {"e1": "{a} > 0", "e2": "{b} < 3", "c1": "{b} > 1", "e3": "COALESCE({a}, 0) >= 0", "e4": "LENGTH({b}) > 3 AND {a} <> 7",
          "c2": "GREATEST({b}, 1) < 50", "e5": "{a} BETWEEN 1 AND 5", "e6": "{a} + {b} > 1", "e7": "{a} IN (1, 2, 3)"}
# pool entries on which the pinned tree is known to deviate: id -> deviation tag (see known_findings.json)
CHECK_TAGS = {"e4": "check_call_and", "e7": "check_in_table"}


def check_text(eid, nm):
    return CHECKS[eid].format(**nm)
COMMENTS = {"l1": "'note one'", "l2": "'it, has (punctuation); inside'"}


# growth path: further column options: id -> (group, ddl, reported key, reported value)
EXTRAS = {
    "x_collate": ("collate", "COLLATE utf8_bin", "collate", "utf8_bin"),
    "x_autoinc": ("autoinc", "AUTO_INCREMENT", "autoincrement", True),
    "x_encode": ("encode", "ENCODE zstd", "encode", "zstd"),
    "x_generated": ("generated", "GENERATED ALWAYS AS (a * 2) STORED", "generated", {"always": True, "as": "a * 2", "stored": True}),
    "x_onupdate": ("onupdate", "ON UPDATE CURRENT_TIMESTAMP", "on_update", "CURRENT_TIMESTAMP"),
    "x_tz": ("timezone", "WITH TIME ZONE", "with_time_zone", True),
    "x_encrypt": ("encrypt", "ENCRYPT", "encrypt", {"salt": True, "encryption_algorithm": "'AES192'", "integrity_algorithm": "SHA-1"}),
    "x_tag": ("tag", "WITH TAG (t1='v')", "with_tag", "t1='v'"),
    "x_identity": ("identity", "IDENTITY(1,1)", "identity", [1, 1]),
    "x_charset": ("charset", "CHARACTER SET utf8", "character_set", "utf8"),
}


def refcols(rid):
    return REFS[rid][4] if len(REFS[rid]) > 4 else REFCOLS


def ref_clause(rid, ncols, rnd=None):
    sch, tb, od, ou = REFS[rid][:4]
    s = "REFERENCES " + (sch + "." if sch else "") + tb + (" (" + ", ".join(refcols(rid)[:ncols]) + ")" if refcols(rid) else "")
    parts = []
    if od:
        parts.append("ON DELETE " + od)
    if ou:
        parts.append("ON UPDATE " + ou)
    if rnd is not None and len(parts) == 2 and rnd.random() < 0.5:
        parts.reverse()
    return " ".join([s] + parts)


def opt_text(o, rnd, nm=None):
    nm = nm or {c: c for c in ABSTRACT_COLS}
    g, v = o["g"], o["v"]
    if g == "null":
        return "NULL" if v == "null" else "NOT NULL"
    if g == "default":
        return "DEFAULT " + DEFAULTS[v][0]
    if g == "pk":
        return "PRIMARY KEY"
    if g == "unique":
        return "UNIQUE"
    if g == "ref":
        return ref_clause(v, 1, rnd)
    if g == "check":
        return "CHECK (" + check_text(v, nm) + ")"
    if g == "comment":
        return "COMMENT " + COMMENTS[v]
    if v in EXTRAS:
        return EXTRAS[v][1]
    raise ValueError(g)


def item_text(it, rnd, nm=None):
    nm = nm or {c: c for c in ABSTRACT_COLS}
    k = it["k"]
    cs = ", ".join(nm[c] for c in it["cs"])
    cn = f"CONSTRAINT {it['cn']} " if it["cn"] else ""
    if k in ("pk", "cpk"):
        form = rnd.randrange(4)
        if form >= 2 and any(nm[c].lower() in ("asc", "desc") for c in it["cs"]):
            form -= 2        # a column CALLED asc / desc followed by a sort direction word is ambiguous: no direction words then
        if form == 1:
            return f"{cn}PRIMARY KEY CLUSTERED ({cs})"
        if form == 2:   # some, not all, key columns carry an explicit sort direction
            cols = [nm[c] + (" DESC" if i % 2 else "") for i, c in enumerate(it["cs"], 1 if rnd.random() < 0.5 else 0)]
            return f"{cn}PRIMARY KEY CLUSTERED ({', '.join(cols)})"
        if form == 3:
            cols = [nm[c] + (" ASC" if i == len(it["cs"]) - 1 else "") for i, c in enumerate(it["cs"])]
            return f"{cn}PRIMARY KEY ({', '.join(cols)})"
        return f"{cn}PRIMARY KEY ({cs})"
    if k in ("uniq", "cuniq"):
        return f"{cn}UNIQUE ({cs})"
    if k in ("check", "ccheck"):
        return f"{cn}CHECK ({check_text(it['e'], nm)})"
    if k in ("fk", "cfk"):
        return f"{cn}FOREIGN KEY ({cs}) " + ref_clause(it["r"], len(it["cs"]), rnd)
    raise ValueError(k)


def render_parts(hist, seed, nm=None):
    """-> list of body parts (column definitions and table-level items, in order)"""
    rnd = random.Random(f"tf{seed}")
    nm = nm or {c: c for c in ABSTRACT_COLS}
    parts = []
    ncol = 0
    cur = None
    for a in hist:
        if a["a"] == "col":
            if cur is not None:
                parts.append(cur)
            cur = f"{nm[ABSTRACT_COLS[ncol]]} {TYPES[a['tf']][0]}"
            ncol += 1
        elif a["a"] == "opt":
            cur += " " + opt_text(a["o"], rnd, nm)
        elif a["a"] == "item":
            if cur is not None:
                parts.append(cur)
                cur = None
            parts.append(item_text(a["it"], rnd, nm))
    if cur is not None:
        parts.append(cur)
    return parts


LAYOUTS = ("oneline", "multiline", "noterm")


def lay_out(name, parts, layout):
    """one CREATE TABLE statement in the given layout (noterm = multi-line, no `;`: the next CREATE ends it)"""
    if layout == "oneline":
        return f"CREATE TABLE {name} (" + ", ".join(parts) + ");"
    body = ",\n".join("    " + p for p in parts)
    return f"CREATE TABLE {name} (\n{body}\n)" + (";" if layout == "multiline" else "")


def render(hist, seed, table="t1", schema=None, nm=None, layout="oneline"):
    name = (schema + "." if schema else "") + table
    return lay_out(name, render_parts(hist, seed, nm), layout)


def _check_norm(st):
    """a check is reported as text, or (IN lists) as {"in_statement": {"name", "in"}} possibly inside a list"""
    if isinstance(st, list) and len(st) == 1:
        st = st[0]
    if isinstance(st, dict) and "in_statement" in st:
        i = st["in_statement"]
        st = f"{i.get('name')} IN ({', '.join(i.get('in') or [])})"
    return _sq(st) if isinstance(st, str) else st


def _sq(s):
    return re.sub(r"\s+", "", s) if isinstance(s, str) else s


def expected(obs, open_names=(), nm=None):
    nm = nm or {c: c for c in ABSTRACT_COLS}
    cols = []
    for c in obs["cols"]:
        _, ty, size = TYPES[c["tf"]]
        cols.append({"n": nm[c["n"]], "ty": ty, "size": size, "nullable": c["nullable"],
                     "df": None if c["df"] == "none" else DEFAULTS[c["df"]][1],
                     "uq": None if c["n"] in open_names else c["uq"],
                     "ck": None if c["ck"] == "none" else _sq(check_text(c["ck"], nm))})
    refs = []
    for r in obs["refs"]:
        rid, k = r["r"]
        sch, tb, od, ou = REFS[rid][:4]
        if not refcols(rid):  # no referenced column list: one None, whatever the number of key columns
            refs.append({"cs": [nm[c] for c in r["cs"]], "sch": sch, "tb": tb, "rc": [None], "od": od, "ou": ou})
        elif k == 0:  # named FOREIGN KEY constraint: whole column lists
            refs.append({"cs": [nm[c] for c in r["cs"]], "sch": sch, "tb": tb, "rc": list(refcols(rid)[:len(r["cs"])]), "od": od, "ou": ou})
        else:
            refs.append({"cs": [nm[c] for c in r["cs"]], "sch": sch, "tb": tb, "rc": [refcols(rid)[k - 1]], "od": od, "ou": ou})
    return {
        "cols": cols,
        "pk": [nm[c] for c in obs["pk"]],
        "named": sorted([[n["k"], n["cn"], [nm[c] for c in n["cs"]]] for n in obs["named"]], key=repr),
        "multi": sorted([nm[c] for c in m] for m in obs["multi"]),
        "checks": [{"cn": c["cn"] or None, "e": _sq(check_text(c["e"], nm))} for c in obs["checks"]],
        "refs": sorted(refs, key=repr),
    }


def project_table(t, open_names=(), nm=None):
    if nm is not None:
        open_names = {nm[c] for c in open_names}
    cols = []
    refs = []
    for c in t.get("columns", []):
        size = c.get("size")
        if isinstance(size, tuple):
            size = list(size)
        ck = c.get("check")
        cols.append({"n": c.get("name"), "ty": c.get("type"), "size": size, "nullable": c.get("nullable"), "df": c.get("default"),
                     "uq": None if c.get("name") in open_names else c.get("unique"),
                     "ck": _check_norm(ck)})
        r = c.get("references")
        if r:
            rc = [r["column"]] if "column" in r else list(r.get("columns") or [])
            refs.append({"cs": [c.get("name")], "sch": r.get("schema", r.get("dataset")), "tb": r.get("table"), "rc": rc, "od": r.get("on_delete"),
                         "ou": r.get("on_update")})
    cons = t.get("constraints") or {}
    named, multi = [], []
    for p in cons.get("primary_keys", []):
        named.append(["cpk", p.get("constraint_name"), list(p["columns"])])
    for u in cons.get("uniques", []):
        if (u.get("constraint_name") or "").startswith("UC_") and u["constraint_name"] == "UC_" + "_".join(u["columns"]):
            multi.append(list(u["columns"]))
        else:
            named.append(["cuniq", u.get("constraint_name"), list(u["columns"])])
    for r in cons.get("references", []):
        nm = r.get("name")
        refs.append({"cs": nm if isinstance(nm, list) else [nm], "sch": r.get("schema", r.get("dataset")), "tb": r.get("table"),
                     "rc": list(r.get("columns") or ([r["column"]] if "column" in r else [])), "od": r.get("on_delete"),
                     "ou": r.get("on_update")})
    checks = []
    for c in t.get("checks", []):
        st = c.get("statement") if isinstance(c, dict) else c
        checks.append({"cn": c.get("constraint_name") if isinstance(c, dict) else None, "e": _check_norm(st)})
    return {"cols": cols, "pk": list(t.get("primary_key") or []), "named": sorted(named, key=repr), "multi": sorted(multi),
            "checks": checks, "refs": sorted(refs, key=repr)}


def shape_paths(t):
    """which C12 / shape facts of a raw table dict are off (used for known-finding attribution paths)"""
    out = []
    for i, c in enumerate(t.get("columns", [])):
        r = c.get("references")
        if r and "column" not in r:
            out.append(f"cols.{i}.references.shape")
    return out
