"""Clause catalogue (frozen from the pinned tree into clause_catalog.json, reviewed against the property's list) and the
renderer / projection for spec/Clauses.tla."""
import json
import os

CAT = {e["id"]: e for e in json.load(open(os.path.join(os.path.dirname(__file__), "clause_catalog.json")))}
COMMON_KEYS = ["partitioned_by", "tablespace", "comment", "partition_by"]
MF = json.load(open(os.path.join(os.path.dirname(__file__), "mode_fields.json")))
MODES = MF["modes"]

# bodies: id -> (column list DDL, expected projection of the body)
BODIES = {
    "plain": ("a int, b varchar(10)", [("a", "int", None, True, None), ("b", "varchar", 10, True, None)], []),
    "last_default": ("a int, b varchar(10) DEFAULT 'x'", [("a", "int", None, True, None), ("b", "varchar", 10, True, "'x'")], []),
    "last_notnull": ("a int, b varchar(10) NOT NULL", [("a", "int", None, True, None), ("b", "varchar", 10, False, None)], []),
    "last_ref": ("a int, b int REFERENCES o (x)", [("a", "int", None, True, None), ("b", "int", None, True, None)], []),
    "table_pk": ("a int, b varchar(10), PRIMARY KEY (a)", [("a", "int", None, False, None), ("b", "varchar", 10, True, None)], ["a"]),
    "last_default_num": ("a int, b int DEFAULT 5", [("a", "int", None, True, None), ("b", "int", None, True, 5)], []),
}


def key_name(k):
    return k.split(".", 1)[1]


def tla_consts(ids, bodies, **kw):
    def fn(f):
        return "[" + ", ".join(f"{c} |-> {f(CAT[c])}" for c in ids) + "]"

    def sset(xs):
        return "{" + ", ".join(f'"{x}"' for x in sorted(xs)) + "}"
    d = dict(
        Clause_=sset(ids),
        DialectOf=fn(lambda e: f'"{e["dialect"]}"'),
        KeysOf=fn(lambda e: sset({key_name(k) for k in e["own"]} | {key_name(k) for k in e["sql"]})),
        ModesOfKey="[" + ", ".join(f"{k} |-> {sset(MF['modes_of'].get(k, []))}" for k in sorted({key_name(x) for c in ids for x in list(CAT[c]["own"]) + list(CAT[c]["sql"])})) + "]",
        DeclaredIn="[" + ", ".join(f"{k} |-> {sset(MF['declared_in'].get(k, []))}" for k in sorted({key_name(x) for c in ids for x in list(CAT[c]["own"]) + list(CAT[c]["sql"])})) + "]",
        ShowModes='{"sql"}',
        CommonKeys=sset(COMMON_KEYS), FirstOnly=sset({"organization_index"} & set(ids)),
        Bodies=sset(bodies), MaxClauses=2, Variant='"shipped"', WithHist="FALSE")
    d.update(kw)
    return d


def render(beh, table="t1"):
    cols = BODIES[beh["body"]][0]
    return f"CREATE TABLE {table} ({cols}) " + " ".join(CAT[c]["ddl"] for c in beh["clauses"]) + ";"


def body_projection(t):
    return [(c["name"], c["type"], c["size"], c["nullable"], c["default"]) for c in t.get("columns", [])], list(t.get("primary_key") or [])


def value_of(cid, key, slot):
    e = CAT[cid]
    for k, v in e[slot].items():
        if key_name(k) == key:
            return v
    # the other slot holds the same value under the other placement
    for k, v in e["own" if slot == "sql" else "sql"].items():
        if key_name(k) == key:
            return v
    raise KeyError((cid, key))
