"""Driver for spec/System.tla: the end-to-end composition at statement granularity (parse stage -> fold stage -> presentation,
run() repeated).  Each property that the composition serves (C03, C13, C14, C16) calls `leg` with its own slice of the constants;
TLC model-checks the slice, a negative control must still be refuted, and every complete behaviour is rendered to DDL and run
through the real library: the outcome (exception type, or the entities / buckets / comment count) must be the contract's."""
import random

from . import common as C

INV = ["OutcomeOK", "InOrder", "GroupLossless", "Repeat", "SilentOnlyDrops"]
ALL_KINDS = ["table", "sequence", "type", "domain", "schema", "database", "tablespace", "go", "insert", "select", "view", "alter", "index", "set", "comment"]
MARKER = [("table_name", "table"), ("sequence_name", "sequence"), ("type_name", "type"), ("domain_name", "domain"), ("schema_name", "schema"),
          ("tablespace_name", "tablespace"), ("database_name", "database")]
PREFIX = {"table": "t", "sequence": "sq", "type": "ty", "domain": "dm", "schema": "sc", "database": "db", "tablespace": "ts", "ddl_property": "opt"}
MODES = ["sql", "hql", "mysql", "postgres", "bigquery", "snowflake", "oracle", "mssql", "redshift"]


def sset(xs):
    return "{" + ", ".join(f'"{x}"' for x in xs) + "}"


def bset(xs):
    return "{" + ", ".join("TRUE" if x else "FALSE" for x in xs) + "}"


def consts(kinds, **kw):
    d = dict(Kinds=sset(kinds), MaxStmts=3, Silents=bset([True]), Groups=bset([False]), MaxRuns=1, Variant='"shipped"', WithHist="FALSE")
    d.update(kw)
    return d


def mc(cs, what, expect=None, timeout=900, simulate=None, depth=None, seed=None):
    hist = cs["WithHist"] == "TRUE"
    invs = [expect] if expect else INV + (["Emit"] if hist else [])
    r = C.run_tlc_wrapped("System", cs, dict(spec="Spec", invariants=invs, view=None if hist else "View"), workers=1 if hist else C.NCPU,
                          timeout=timeout, simulate=simulate, depth=depth, seed=seed)
    if expect:
        if expect not in r.violated:
            raise C.MachineryError(f"negative control {what}: TLC no longer refutes {expect} (violated={r.violated})\n{r.tail[-600:]}")
    else:
        C.require_tlc_ok(r, what)
    return r


def stmt_text(i, d, rnd):
    k, t = d["k"], d["tgt"]
    up = rnd.random() < 0.7
    kw = (lambda s: s) if up else (lambda s: s.lower())
    if k == "table":
        return kw("CREATE TABLE") + f" t{i} (a int, b varchar(5));"
    if k == "sequence":
        return kw("CREATE SEQUENCE") + f" sq{i} " + kw("START") + " 1;"
    if k == "type":
        return kw("CREATE TYPE") + f" ty{i} " + kw("AS ENUM") + " ('a', 'b');"
    if k == "domain":
        return kw("CREATE DOMAIN") + f" dm{i} " + kw("AS") + " varchar(5);"
    if k == "schema":
        return kw("CREATE SCHEMA") + f" sc{i};"
    if k == "database":
        return kw("CREATE DATABASE") + f" db{i};"
    if k == "tablespace":
        return kw("CREATE TABLESPACE") + f" ts{i};"
    if k == "set":
        return f"SET opt{i} = {i};"
    if k == "alter":
        return kw("ALTER TABLE") + f" t{t} " + kw("ADD UNIQUE") + " (a);"
    if k == "index":
        return kw("CREATE INDEX") + f" ix{i} " + kw("ON") + f" t{t} (b);"
    if k == "go":
        return "GO"
    if k == "insert":
        return f"INSERT INTO x{i} VALUES ({i}, 2);"
    if k == "select":
        return f"SELECT * FROM x{i} WHERE a > {i};"
    if k == "view":
        return kw("CREATE VIEW") + f" v{i} " + kw("AS SELECT") + " 1;"
    if k == "comment":
        return f"/* note{i} about t{i} */"
    raise ValueError(k)


def render(beh, seed):
    rnd = random.Random(f"sys{seed}{len(beh['script'])}")
    return "\n".join(stmt_text(i, d, rnd) for i, d in enumerate(beh["script"], 1)) + "\n"


def exp_entity(e):
    k = e["k"]
    out = {"kind": k, "name": PREFIX[k] + str(e["sid"])}
    if k == "table":
        out["uniq"] = len([m for m in e["merged"] if m[0] == "alter"])
        out["index"] = [f"ix{m[1]}" for m in e["merged"] if m[0] == "index"]
    return out


def proj_entity(e):
    """total: whatever the library returns is projected, never raised on (an entity of an unexpected shape is a verdict, not a crash)"""
    try:
        return _proj_entity(e)
    except Exception as x:  # noqa
        return {"kind": "?", "unprojectable": type(x).__name__, "keys": sorted(e)[:5] if isinstance(e, dict) else str(type(e))}


def _proj_entity(e):
    for key, k in MARKER:
        if key in e:
            out = {"kind": k, "name": e[key]}
            if k == "table":
                out["uniq"] = len((e.get("alter") or {}).get("uniques", []))
                out["index"] = [x.get("index_name") for x in e.get("index", [])]
                if [c["name"] for c in e.get("columns", [])] != ["a", "b"]:
                    out["columns"] = [c.get("name") for c in e.get("columns", [])]
            return out
    if "value" in e and "name" in e:
        return {"kind": "ddl_property", "name": e["name"]}
    return {"kind": "?", "keys": sorted(e)[:5]}


BUCKET = {"table": "tables", "sequence": "sequences", "type": "types", "domain": "domains", "schema": "schemas", "tablespace": "tablespaces",
          "database": "databases", "ddl_property": "ddl_properties"}
ALWAYS = ["tables", "types", "sequences", "domains", "schemas", "ddl_properties"]


def expected(beh):
    if beh["exc"] != "none":
        return {"raises": beh["exc"]}
    ents = [exp_entity(e) for e in beh["flat"]]
    if beh["group"]:
        b = {k: [] for k in ALWAYS}
        for e in ents:
            b.setdefault(BUCKET[e["kind"]], []).append(e)
        return {"buckets": b, "comments": beh["comments"]}
    return {"flat": ents, "comments": beh["comments"]}


def observed(o, group):
    if o[0] != "ok":
        return {"raises": o[1]}
    r = o[1]
    if group:
        if not isinstance(r, dict):
            return {"not_a_dict": True}
        return {"buckets": {k: [proj_entity(e) for e in v] for k, v in r.items() if k != "comments"}, "comments": len(r.get("comments", []))}
    ents = [e for e in r if "comments" not in e]
    nc = sum(len(e["comments"]) for e in r if "comments" in e)
    return {"flat": [proj_entity(e) for e in ents], "comments": nc}


def _run(task):
    text, silent, group, runs, mode = task
    lib = C._import_lib()
    outs = []
    try:
        p = lib.DDLParser(text, silent=silent)
    except BaseException as e:  # noqa
        return [("exc", "constructor:" + type(e).__name__)]
    for _ in range(runs):
        try:
            outs.append(("ok", C.jnorm(p.run(group_by_type=group, output_mode=mode))))
        except BaseException as e:  # noqa
            outs.append(("exc", type(e).__name__, str(e)[:120]))
    return outs


def leg(V, tier, seed, what, kinds, cap=4000, negative=None, sim=None, **kw):
    """model-check + negative control + generate + replay one slice.  -> coverage dict"""
    rnd = random.Random(seed)
    cs = consts(kinds, **kw)
    r = mc(cs, what)
    cov = {"slice": what, "constants": {k: v for k, v in cs.items() if k not in ("WithHist",)}, "distinct_states": r.distinct, "transitions": r.generated}
    if negative:
        var, inv, nkw = negative
        mc(consts(kinds, **dict(kw, **nkw, Variant=f'"{var}"')), f"{what}: {var}", expect=inv)
        cov["negative_control"] = f"Variant={var} refutes {inv}"
    g = mc(dict(cs, WithHist="TRUE"), "generation " + what)
    behs = g.beh
    if sim:
        gs = mc(dict(consts(kinds, **dict(kw, **sim["consts"])), WithHist="TRUE"), "simulation " + what, simulate=sim["simulate"], depth=sim["depth"], seed=seed + 5,
                timeout=1800)
        seen = {repr((b["script"], b["silent"], b["group"])) for b in behs}
        for b in gs.beh:
            key = repr((b["script"], b["silent"], b["group"]))
            if key not in seen:
                seen.add(key)
                behs.append(b)
    total = len(behs)
    if len(behs) > cap:
        behs = rnd.sample(behs, cap)
    tasks = [(render(b, seed), b["silent"], b["group"], b["runs"], MODES[(seed + len(b["script"]) + i) % len(MODES)]) for i, b in enumerate(behs)]
    res = C.pool().map(_run, tasks, 64)
    nbad = 0
    for b, tk, outs in zip(behs, tasks, res):
        exp = expected(b)
        for n, o in enumerate(outs, 1):
            got = observed(o, b["group"])
            if got != exp:
                nbad += 1
                paths = ["raises"] if ("raises" in got) != ("raises" in exp) or got.get("raises") != exp.get("raises") else \
                        [k for k in ("flat", "buckets", "comments") if got.get(k) != exp.get(k)]
                V.mismatch({"what": "System.tla " + what, "ddl": tk[0], "silent": tk[1], "group_by_type": tk[2], "output_mode": tk[4], "run": n,
                            "expected": exp, "observed": got}, paths=paths)
                break
    cov.update({"behaviours": total, "replayed": len(behs), "mismatches": nbad})
    return cov, r.distinct + g.distinct, r.generated + g.generated, len(behs)
